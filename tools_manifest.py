#!/venv/bin/python
"""Regenerates MANIFEST.json from the table below (single source of truth)."""
import json, os
HERE = os.path.dirname(os.path.abspath(__file__))

CLAIMED = {
 'C03': dict(
  text=("Seeded deterministic simulation of object-creation / garbage-collection histories: kernel.term's view of id() is "
        "a simulated allocator whose address re-use is PRNG-decided; a heap machine of <=12 live terms runs <=40 ops "
        "(construct with shared sub-objects at several binder depths, parse, wrap, copy, type/term instantiation, in-place "
        "type instantiation, substitution for a bound variable, beta, abstraction, drop, gc) and after every op compares "
        "results with an independent reference term model, all-pairs ==/hash/ordering with alpha-equality, types, and "
        "denotations in finite standard models. Sampling, not proof."),
  note="Trusts the reference model checks/c03_model.py (textbook definitions) and CPython's rule that an address is re-issued only after its owner died; terms <=25 nodes.",
  technique="deterministic simulation: simulated allocator (address re-use faults) + heap-machine op schedules + reference-model and finite-model oracles",
  ref="DESIGN.md §4 C03"),
 'C07': dict(
  text=("Seeded deterministic simulation of printing / parsing histories in one process: up to four documents (library "
        "theories at PRNG-chosen limits, and synthetic variants declaring one constant at different types, as two users' "
        "theories do) share the printer memo, the settings object, the current theory and context; ops switch documents, "
        "print and round-trip terms, sequents, types, instantiations and exported proof items under all printer settings, "
        "mutate terms type-preservingly, flip settings persistently and fail inside nested setting scopes. Every round trip "
        "must hold wherever in the history it happens; a failure is re-tried with an empty memo to separate history "
        "effects from input-level ones. Sampling, not proof."),
  note="Terms come from library statements, sub-terms and type-preserving mutations; the oracle is parse(print(t)) == t itself, so a defect identical with and without history is classified as input-level by the shape of the smallest failing sub-term.",
  technique="deterministic simulation: multi-document histories over the process-global printer memo / settings / theory, fork-per-run snapshots, memo-cleared re-execution as history classifier",
  ref="DESIGN.md §4 C07"),
 'C12': dict(
  text=("Seeded deterministic simulation of process histories against the real loader: the disk and its mtime clock "
        "behind logic/basic.py are an in-memory SimFS; every run starts as a fresh process w.r.t. holpy (holpy is imported "
        "inside the forked run), then executes <=12 ops - module imports with import-time loads, loads with limits for two "
        "users, file modifications (items, constant types, imports, cycles), clock jumps, and the faults EIO on open, "
        "torn file, interrupted item parse, heal. After every load the canonical theory dump must equal a cache-free "
        "reference loader evaluated on the current files (errors must be reported as errors; after heal the very next "
        "load must be right). Sampling, not proof."),
  note="The reference loader re-uses holpy's item parser and Theory.unchecked_extend; unchanged-mtime rewrites and file creation/deletion after the first scan are excluded; big theories only in the thorough tier.",
  technique="deterministic simulation: in-memory file system + simulated mtime clock + injected I/O faults and interrupted loads, reference-loader oracle, ddmin history shapes",
  ref="DESIGN.md §4 C12"),
 'C13': dict(
  text=("Seeded deterministic simulation of editing histories: 1-3 sessions over recorded library proofs multiplexed over "
        "the process globals, operations applied to the live state or to copies (undo stack), perturbed applications, "
        "operations failing half-way on a copy, export -> re-import, process restart with only exported text surviving "
        "(the run continues in a new child of the world snapshot), disturbers between a session's operations, and the "
        "solver answering `unknown` behind a deterministic resource limit. After every completed operation the "
        "statement's invariants are evaluated: full re-check with exactly the open gaps, last line = goal, contiguous "
        "numbering and earlier-visible citations (own definition), gap-free acceptance, export/re-import equality, "
        "copy and undo-stack isolation. Sampling, not proof."),
  note="Genuine defects of the unchanged tree (revert_intro, apply_theorem_for export, a bound-name clash) are listed in known_findings.json by signature; a state already failing an invariant is not re-judged for it. Z3 runs for real behind rlimit.",
  technique="deterministic simulation: multi-session op schedules over process globals + copies, fault injection (half-way failures, solver unknown, restart), invariant oracles after every op, ddmin replay files",
  ref="DESIGN.md §4 C13"),
 'C14': dict(
  text=("Rides on the C13 simulator: at PRNG-chosen prefixes of recorded proofs (and of perturbed / re-imported states) "
        "search_method is called for an open goal and 0-2 visible facts and, possibly after other actors have run, every "
        "returned suggestion is applied to a fresh copy with declared parameters supplied; the outcome must match the "
        "advertisement (succeeds or asks for parameters, sub-goals among the advertised, vanished goals closed by a fact "
        "or trivially, `solves` leaves no gap, advertised facts appear as new proved lines, original untouched)."),
  note="Where a parameter value had to be guessed a failing application is not a verdict and the fact comparison is skipped; search_method raising is outside the statement.",
  technique="deterministic simulation: search/apply separated in time by other actors, every suggestion applied on copies, advertised-vs-actual outcome oracle",
  ref="DESIGN.md §4 C14"),
 'C15': dict(
  text=("Seeded deterministic simulation of the solver's decision / propagation / resolution schedule: the order in which "
        "prover/sat.py iterates its sets of variable names is fixed by the world's PYTHONHASHSEED and simulator-chosen names "
        "(searched to realise a PRNG-drawn decision order for <=6 variables); non-termination is decided by a deterministic "
        "event budget on the solver's debug seam and a sys.settrace line budget; verdicts are compared with exhaustive "
        "search, assignments and resolution traces are re-checked independently, Tseitin encodings go through the kernel "
        "checker and a truth table. Thorough adds the systematic sweep over <=3 variables / <=4 clauses x 6 decision orders."),
  note="Trusts brute force / trace replay in checks/c15.py and kernel check_proof; CNFs <=12 variables / <=60 clauses; zchaff wrapper and proofrec not run.",
  technique="deterministic simulation: hash-seed worlds + chosen decision orders + step-budget termination oracle + brute-force/trace-replay oracles",
  ref="DESIGN.md §4 C15"),
 'C17': dict(
  text=("Seeded deterministic simulation of delivery histories (order, duplication, reversed orientation, "
        "already-entailed merges, interleaved add/test/explain) against prover/congc.py, real code, with a naive "
        "fixpoint congruence closure as reference model after every operation, re-delivery of the same multiset in "
        "other orders, and the proof checker on every returned explanation. Sampling, not proof."),
  note="Trusts the naive closure in checks/c17.py and kernel check_proof; explain() raising is outside the statement.",
  technique="deterministic simulation: seeded delivery schedules + reference-model oracle + ddmin replay files",
  ref="DESIGN.md §4 C17"),
}

NA = {
 'C01': "pure function of the proof script (quantifier: programs, inputs); no schedule, clock, fault or history in it - its one history-dependent ingredient (identity-based term equality) is exercised under C03",
 'C02': "check_proof recomputes every step from the proof object and the theory; a function of its input, nothing for a scheduler or fault injector to decide",
 'C04': "macro expansion and evaluation are both functions of (args, premises, theory); input-only quantifier",
 'C05': "evaluation of one ground arithmetic goal; no state, clock or I/O",
 'C06': "translation soundness is a function of the goal; the only fault the solver seam offers (stall / unknown) can only make a step fail and is injected under C13/C14",
 'C08': "all type-inference state is local to one call",
 'C09': "matching is pure; the aliasing clause concerns a single call",
 'C10': "conversions and normalisers are pure functions of the term; orderings do not depend on hash iteration",
 'C11': "parse/export of one item against a given theory; no file I/O in the anchored functions (printer-memo dependence belongs to C07)",
 'C16': "decision procedures over the input matrix; deterministic pivot rules",
 'C18': "each rule's eval is a function of (premises, args, context); external solver absent",
 'C19': "numeric value before/after a rule application; input-only; the timer/thread code in integral/slagle.py is not part of the property",
 'C20': "functions of program, annotations and state; input-only",
}
PENDING = {}

def main():
    checks = []
    for pid in sorted(CLAIMED):
        c = CLAIMED[pid]
        checks.append({
            'property_id': pid,
            'quick_cmd': './check %s --tier quick' % pid,
            'thorough_cmd': './check %s --tier thorough' % pid,
            'evidence_file': 'evidence/%s.json' % pid,
            'replay_cmd_template': './check %s --replay {path}' % pid,
            'engine': 'holsim',
            'level_claimed': {'category': 'exploration', 'text': c['text'], 'design_ref': c['ref']},
            'level_note': c['note'],
            'technique': c['technique'],
        })
    na = [{'property_id': k, 'reason': v} for k, v in sorted({**NA, **PENDING}.items())]
    m = {
        'version': 1,
        'setup_cmd': '/venv/bin/python -c "import lark, z3, sympy, jsonschema; print(\'ok\')"',
        'hooks': {'guard': 'HOLPY_VERIF', 'enable': 'no hooks: every seam is a module-attribute rebind done by the harness at run time; checks import holpy from /repo working tree',
                  'baseline_off_cmd': 'cd /repo && /venv/bin/python -m pytest -ra -q -p no:cacheprovider --timeout=900 --continue-on-collection-errors',
                  'source_commits': [], 'add_only': True},
        'engines': [{'name': 'holsim', 'path': 'holsim/', 'serves_properties': sorted(CLAIMED),
                     'kind_free_text': 'deterministic simulation with fault injection: seeded worlds (fixed PYTHONHASHSEED), fork-per-run snapshots, op-list replay files, ddmin minimiser'}],
        'checks': checks,
        'not_applicable': na,
        'notes': 'See DESIGN.md. exit 0 = held; exit 1 = VIOLATION lines; exit 2 = harness error (never a verdict).',
    }
    with open(os.path.join(HERE, 'MANIFEST.json'), 'w') as f:
        json.dump(m, f, indent=1)
    import jsonschema
    jsonschema.validate(m, json.load(open('/root/.vp/MANIFEST.schema.json')))
    print('MANIFEST ok: claimed', sorted(CLAIMED), 'n/a', len(na))

if __name__ == '__main__':
    main()
