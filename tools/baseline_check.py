#!/venv/bin/python
"""Runs the repository's baseline test command (guard off) and compares the set of passing
tests with /root/.vp/BASELINE.json's stable_pass list.  Exit 0 iff every stable test passes."""
import json, subprocess, sys, tempfile, os, xml.etree.ElementTree as ET
base = json.load(open('/root/.vp/BASELINE.json'))
repo = sys.argv[1] if len(sys.argv) > 1 else '/repo'
fd, path = tempfile.mkstemp(suffix='.xml'); os.close(fd)
cmd = ['/venv/bin/python', '-m', 'pytest', '-ra', '-q', '-p', 'no:cacheprovider', '--timeout=900',
       '--continue-on-collection-errors', '--junitxml=' + path]
env = dict(os.environ); env.pop('HOLPY_VERIF', None)
p = subprocess.run(cmd, cwd=repo, env=env, stdout=subprocess.PIPE, stderr=subprocess.STDOUT)
passed = set()
for tc in ET.parse(path).getroot().iter('testcase'):
    if not any(ch.tag in ('failure', 'error', 'skipped') for ch in tc):
        passed.add('%s::%s' % (tc.get('classname'), tc.get('name')))
os.unlink(path)
missing = [t for t in base['stable_pass'] if t not in passed]
print('passed %d, stable baseline %d, missing %d' % (len(passed), len(base['stable_pass']), len(missing)))
for t in missing[:20]:
    print('  MISSING', t)
sys.exit(1 if missing else 0)
