#!/venv/bin/python
"""Triage tool (not a registered check): replays every recorded proof of the given theories with
I1-I6 evaluated after every step and prints the violation classes (signatures) with counts."""
import sys, os, json, copy, collections, time, faulthandler, signal
sys.path[:0] = ['/verif', os.environ.get('HOLPY_REPO', '/repo')]
from concurrent.futures import ProcessPoolExecutor
import multiprocessing as mp


def work(args):
    theory_name, lo, hi = args
    faulthandler.enable()
    from checks import c13_core as core
    from logic import basic, context
    from server import server, method
    from kernel import theory
    import data.nat, data.set, data.function, data.list  # noqa
    try:
        import data.real, data.integer, prover.omega, imperative.imp, data.expr  # noqa
    except Exception as e:
        pass
    proxy = core.install_solver_seam()
    corpus = core.load_corpus([theory_name])[lo:hi]
    sigs = collections.Counter()
    ex = {}
    stats = collections.Counter()
    for thm in corpus:
        try:
            context.set_context(thm['theory'], limit=('thm', thm['name']), vars=thm['vars'])
            state = server.parse_init_state(thm['prop'])
        except Exception as e:
            stats['init_failed'] += 1
            continue
        goal = state.prf.items[-1].th
        ctxinfo = {'vars': thm['vars']}
        seen = set()
        stats['theorems'] += 1
        for i, step in enumerate(thm['steps']):
            before = copy.copy(state)
            d0 = core.state_digest(before)
            try:
                signal.alarm(60)
                method.apply_method(state, step)
                signal.alarm(0)
            except Exception as e:
                signal.alarm(0)
                stats['step_raised:%s:%s' % (step['method_name'], type(e).__name__)] += 1
                break
            stats['steps'] += 1
            if core.state_digest(before) != d0:
                sigs['I6/copy-changed/%s' % step['method_name']] += 1
            try:
                signal.alarm(120)
                res = core.check_invariants(state, goal, ctxinfo, proxy, step['method_name'])
                signal.alarm(0)
            except Exception as e:
                signal.alarm(0)
                stats['oracle_raised:%s' % type(e).__name__] += 1
                break
            now = set()
            for sig, oracle, detail in res:
                if sig is None:
                    stats['inconclusive'] += 1
                    continue
                key = core.class_key(sig)
                now.add(key)
                if key in seen:
                    continue
                sigs[sig] += 1
                ex.setdefault(sig, '%s.%s step %d: %s' % (thm['theory'], thm['name'], i, detail[:300]))
            seen = now
    return dict(sigs), ex, dict(stats)


def on_alarm(s, f):
    raise TimeoutError('alarm')


if __name__ == '__main__':
    from checks import c13_core as core
    theories = sys.argv[1:] or core.QUICK_THEORIES
    signal.signal(signal.SIGALRM, on_alarm)
    jobs = []
    for th in theories:
        n = len(core.load_corpus([th]))
        step = max(5, n // 8 + 1)
        for lo in range(0, n, step):
            jobs.append((th, lo, lo + step))
    tot = collections.Counter(); exs = {}; st = collections.Counter()
    t0 = time.time()
    with ProcessPoolExecutor(14, mp_context=mp.get_context('fork')) as ex:
        for sigs, e, stats in ex.map(work, jobs):
            tot.update(sigs); st.update(stats)
            for k, v in e.items(): exs.setdefault(k, v)
    print('wall', round(time.time() - t0), 's')
    for k, v in sorted(st.items()): print('STAT', k, v)
    for k, v in tot.most_common(): print('%5d  %s\n         e.g. %s' % (v, k, exs[k]))
