#!/venv/bin/python
"""Applies each seeded change (seeded/<name>/patch.diff) to /repo, runs the registered quick command of the property it
breaks (and optionally the thorough one), records whether a VIOLATION line was printed, and undoes the change.
usage: eval_seeded.py [--thorough] [name ...]     (never commits anything in /repo)"""
import json, os, subprocess, sys, time
HERE = os.path.dirname(os.path.dirname(os.path.abspath(__file__)))
REPO = '/repo'


def sh(cmd, **kw):
    return subprocess.run(cmd, shell=True, stdout=subprocess.PIPE, stderr=subprocess.STDOUT, text=True, **kw)


def main():
    args = [a for a in sys.argv[1:] if not a.startswith('--')]
    thorough = '--thorough' in sys.argv
    names = args or sorted(d for d in os.listdir(os.path.join(HERE, 'seeded')) if os.path.isdir(os.path.join(HERE, 'seeded', d)))
    dirty = sh('git -C %s status --porcelain --untracked-files=no' % REPO).stdout.strip()
    if dirty:
        print('refusing: /repo has uncommitted changes:\n' + dirty)
        return 2
    for name in names:
        d = os.path.join(HERE, 'seeded', name)
        meta_p = os.path.join(d, 'meta.json')
        meta = json.load(open(meta_p))
        prop = meta['property']
        r = sh('git -C %s apply %s' % (REPO, os.path.join(d, 'patch.diff')))
        if r.returncode != 0:
            print(name, 'PATCH DOES NOT APPLY', r.stdout[:300])
            continue
        try:
            t0 = time.time()
            tier = 'thorough' if thorough else 'quick'
            r = sh('cd %s && ./check %s --tier %s --no-evidence --no-selftest' % (HERE, prop, tier), timeout=4 * 3600)
            lines = [l for l in r.stdout.split('\n') if l.startswith(('VIOLATION', 'violation:', 'KNOWN-FINDING', 'HARNESS'))]
            caught = any(l.startswith('VIOLATION') for l in r.stdout.split('\n'))
            meta.setdefault('results', {})[tier] = {
                'command': './check %s --tier %s' % (prop, tier), 'exit': r.returncode, 'caught': caught,
                'wall_s': round(time.time() - t0), 'first_lines': [l[:400] for l in lines[:4]]}
            print(name, prop, tier, 'CAUGHT' if caught else 'missed', 'exit', r.returncode, round(time.time() - t0), 's')
            for l in lines[:3]:
                print('    ', l[:300])
        finally:
            sh('git -C %s checkout -- .' % REPO)
        json.dump(meta, open(meta_p, 'w'), indent=1)
    return 0


if __name__ == '__main__':
    sys.exit(main())
