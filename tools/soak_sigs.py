#!/venv/bin/python
"""Triage tool (not a registered check): runs many generated histories of a check in `collect` mode
(unknown signatures are recorded instead of ending the run) and prints every signature seen.
usage: soak_sigs.py <c13|c14> <tier> <first_seed> <n_seeds> <runs_per_seed>"""
import sys, os, json, collections, time, subprocess
sys.path[:0] = ['/verif', os.environ.get('HOLPY_REPO', '/repo')]


def child(mod_name, tier, seed, runs):
    import importlib, gc
    from holsim.rng import SimRng
    from holsim import proc
    mod = importlib.import_module('checks.' + mod_name)
    mod.warmup()
    gc.collect(); gc.freeze()
    known = []
    try:
        known = [e['signature'] for e in json.load(open('/verif/known_findings.json'))['findings']
                 if e['property'] == mod.PROPERTY and e['status'] == 'known']
    except Exception:
        pass
    out = {}
    stats = collections.Counter()
    for r in range(runs):
        cfg, ops = mod.gen(SimRng(seed, 'world', 0, 'run', r), tier)
        def fn():
            col = {}
            env = {'known': known, 'collect': col, 'allow_restart': False}
            res = mod.execute(cfg, ops, env)
            return {'col': col, 'v': res.get('violation'), 'ctr': res.get('counters'), 'kh': res.get('known_hits')}
        res = proc.fork_call(fn, soft=600)
        if 'ok' not in res:
            stats['harness:' + str(res.get('harness'))] += 1
            out.setdefault('HARNESS:' + str(res.get('exc'))[:80], (res.get('tb') or '')[-900:] + ' [seed %d run %d]' % (seed, r))
            continue
        stats['runs'] += 1
        for k, v in res['ok']['col'].items():
            out.setdefault(k, v + ' [seed %d run %d]' % (seed, r))
        v = res['ok']['v']
        if v:
            out.setdefault(v['sig'], v['detail'][:240] + ' [seed %d run %d]' % (seed, r))
        for k, n in (res['ok']['ctr'] or {}).items():
            if isinstance(n, int): stats[k] += n
    print(json.dumps({'sigs': out, 'stats': stats}))


if __name__ == '__main__':
    if sys.argv[1] == '--child':
        child(sys.argv[2], sys.argv[3], int(sys.argv[4]), int(sys.argv[5]))
        sys.exit(0)
    mod_name, tier, first, n, runs = sys.argv[1], sys.argv[2], int(sys.argv[3]), int(sys.argv[4]), int(sys.argv[5])
    procs = []
    t0 = time.time()
    allsigs = {}
    stats = collections.Counter()
    pending = list(range(first, first + n))
    running = []
    while pending or running:
        while pending and len(running) < 14:
            sd = pending.pop(0)
            env = dict(os.environ, PYTHONHASHSEED=str(sd % 4000000000))
            p = subprocess.Popen(['/venv/bin/python', __file__, '--child', mod_name, tier, str(sd), str(runs)],
                                 stdout=subprocess.PIPE, stderr=subprocess.DEVNULL, env=env)
            running.append(p)
        for p in list(running):
            if p.poll() is not None:
                running.remove(p)
                try:
                    d = json.loads(p.stdout.read().decode().strip().split('\n')[-1])
                    for k, v in d['sigs'].items(): allsigs.setdefault(k, v)
                    stats.update(d['stats'])
                except Exception as e:
                    stats['child_failed'] += 1
        time.sleep(0.5)
    print('wall', round(time.time() - t0), 's')
    for k, v in sorted(stats.items()): print('STAT', k, v)
    for k in sorted(allsigs): print('SIG', k, '\n      e.g.', allsigs[k].replace('\n', ' ')[:330 if not k.startswith('HARNESS') else 1200])
