#!/venv/bin/python
"""Generates seeded/README.md from seeded/*/meta.json."""
import json, os
HERE = os.path.dirname(os.path.dirname(os.path.abspath(__file__)))
rows = []
for name in sorted(os.listdir(os.path.join(HERE, 'seeded'))):
    p = os.path.join(HERE, 'seeded', name, 'meta.json')
    if not os.path.isfile(p):
        continue
    m = json.load(open(p))
    res = m.get('results', {})
    def cell(t):
        r = res.get(t)
        if not r:
            return 'not run'
        s = 'caught' if r.get('caught') else ('MISSED' if r.get('exit') == 0 else 'exit %s, no VIOLATION line' % r.get('exit'))
        if r.get('first_lines'):
            v = [l for l in r['first_lines'] if l.startswith('violation:')]
            if v:
                sig = v[0].split('sig=')[1].split(' world=')[0] if 'sig=' in v[0] else ''
                s += ' (`%s`)' % sig[:70]
        return s
    rows.append('| %s | %s | %s | %s | %s |' % (name, m['property'], m['needs_to_manifest'].replace('|', '/'), cell('quick'), cell('thorough')))
out = ['# Seeded breaking changes', '',
       'Each directory holds a change to bzhan/holpy written by an independent sub-agent that was given only the text of one',
       'property and a scratch worktree of /repo (nothing from /verif): `patch.diff`, the agent\'s demonstration `demo.py`',
       '(prints PASS on the unchanged tree, FAIL with the patch), its `notes.md`, and `meta.json` with what the change needs in',
       'order to manifest and what the registered commands reported when the patch was applied to /repo',
       '(`tools/eval_seeded.py`; the patch is undone straight afterwards, nothing is ever committed in /repo).', '',
       '| change | property | needs, in order to manifest | quick | thorough |', '|---|---|---|---|---|'] + rows + ['']
open(os.path.join(HERE, 'seeded', 'README.md'), 'w').write('\n'.join(out))
print('\n'.join(out[-len(rows) - 3:]))
