#!/bin/sh
# background soak (vp run): collects every signature the generators can produce on the unchanged tree
cd "$(dirname "$0")/.."
for spec in "c13 quick 20000 280 8" "c14 quick 21000 140 5" "c07 quick 22000 56 40" "c13 thorough 30000 140 8" "c14 thorough 31000 84 5" "c07 thorough 32000 28 60"; do
  echo "=== $spec"
  /venv/bin/python tools/soak_sigs.py $spec 2>&1 | grep -v "^STAT op_\|^STAT fault_dist"
done
