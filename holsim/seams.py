"""Seams the simulator owns, and helpers to build in-memory broken variants
(sensitivity self-test) without touching any file under /repo."""
import inspect
import sys
import textwrap
import types


class VariantUnavailable(Exception):
    pass


def patch_source(owner, name, old, new, count=1):
    """Re-define function `name` of `owner` (module or class) with `old` replaced by
    `new` in its source text.  Raises VariantUnavailable when the text is not there."""
    fn = owner.__dict__[name] if isinstance(owner, type) else getattr(owner, name)
    raw = fn
    wrap = None
    if isinstance(fn, staticmethod):
        raw, wrap = fn.__func__, staticmethod
    elif isinstance(fn, classmethod):
        raw, wrap = fn.__func__, classmethod
    if getattr(raw, '_holsim_patched', None) == (old, new):
        return
    try:
        orig = inspect.getsource(raw)
    except (OSError, TypeError) as e:
        raise VariantUnavailable(str(e))
    src = textwrap.dedent(orig)
    ind = len(orig) - len(orig.lstrip(' '))
    if ind and old not in src:
        def ded(x):
            return '\n'.join(l[ind:] if l.startswith(' ' * ind) else l for l in x.split('\n'))
        old, new = ded(old), ded(new)
    if old not in src:
        raise VariantUnavailable('text %r not found in %s' % (old, name))
    src = src.replace(old, new, count)
    glob = raw.__globals__
    ns = {}
    exec(compile(src, '<variant %s>' % name, 'exec'), glob, ns)
    newfn = ns[raw.__name__]
    newfn._holsim_patched = (old, new)
    if wrap:
        newfn = wrap(newfn)
    setattr(owner, name, newfn)
