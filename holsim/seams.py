"""Seams the simulator owns, and helpers to build in-memory broken variants
(sensitivity self-test) without touching any file under /repo."""
import inspect
import sys
import textwrap
import types


class VariantUnavailable(Exception):
    pass


def patch_source(owner, name, old, new, count=1):
    """Re-define function `name` of `owner` (module or class) with `old` replaced by
    `new` in its source text.  Raises VariantUnavailable when the text is not there."""
    fn = owner.__dict__[name] if isinstance(owner, type) else getattr(owner, name)
    raw = fn
    wrap = None
    if isinstance(fn, staticmethod):
        raw, wrap = fn.__func__, staticmethod
    elif isinstance(fn, classmethod):
        raw, wrap = fn.__func__, classmethod
    key = (old, new)
    if key in getattr(raw, '_holsim_patched', ()):
        return
    orig = getattr(raw, '_holsim_src', None)
    if orig is None:
        try:
            orig = inspect.getsource(raw)
        except (OSError, TypeError) as e:
            raise VariantUnavailable(str(e))
    src = textwrap.dedent(orig)
    ind = len(orig) - len(orig.lstrip(' '))
    if ind and old not in src:
        def ded(x):
            return '\n'.join(l[ind:] if l.startswith(' ' * ind) else l for l in x.split('\n'))
        old, new = ded(old), ded(new)
    if old not in src:
        raise VariantUnavailable('text %r not found in %s' % (old, name))
    src = src.replace(old, new, count)
    glob = raw.__globals__
    ns = {}
    exec(compile(src, '<variant %s>' % name, 'exec'), glob, ns)
    newfn = ns[raw.__name__]
    newfn._holsim_patched = getattr(raw, '_holsim_patched', ()) + (key,)
    newfn._holsim_src = src
    if wrap:
        newfn = wrap(newfn)
    setattr(owner, name, newfn)


class SimAllocator:
    """Seam S1: replaces the builtin `id` seen by kernel/term.py.

    Hands out simulated addresses.  An address is re-issued only after the object that
    owned it has been finalised (CPython's contract); whether and which freed address
    is re-used is decided by the PRNG.  reuse_p == 0 gives monotonic addresses."""

    def __init__(self, rng, reuse_p=0.0, counters=None):
        import weakref
        self._weakref = weakref
        self.rng = rng
        self.reuse_p = reuse_p
        self.next = 0x1000
        self.free = []
        self.live = {}      # real id -> simulated address (objects asked about more than once)
        self.issued = 0
        self.reissued = 0
        self.released = 0
        self.counters = counters

    def _release(self, real, addr):
        self.live.pop(real, None)
        self.free.append(addr)
        self.released += 1

    def __call__(self, obj):
        real = _real_id(obj)
        a = self.live.get(real)
        if a is not None:
            return a
        if self.free and self.reuse_p > 0 and self.rng.random() < self.reuse_p:
            # CPython re-uses the most recently freed block of a size class first;
            # we mostly do the same and sometimes pick an older one
            if self.rng.random() < 0.7:
                a = self.free.pop()
            else:
                a = self.free.pop(self.rng.randrange(len(self.free)))
            self.reissued += 1
        else:
            a = self.next
            self.next += 16
        self.issued += 1
        self.live[real] = a
        try:
            self._weakref.finalize(obj, self._release, real, a)
        except TypeError:
            pass
        return a


_real_id = id
