"""Fork helpers: every run, replay and minimiser candidate executes in a child
forked from the world's snapshot and reports one JSON value through a pipe."""
import faulthandler
import json
import os
import select
import signal
import sys
import time
import traceback


class SoftTimeout(BaseException):
    pass


def _alarm(signum, frame):
    raise SoftTimeout()


def fork_call(fn, soft=120, hard=None):
    """Run fn() in a forked child.  Returns {'ok': value} or {'harness': kind, ...}.
    soft: seconds until SIGALRM raises SoftTimeout inside the child;
    hard: seconds until the parent SIGKILLs the child."""
    if hard is None:
        hard = soft + 30
    r, w = os.pipe()
    sys.stdout.flush()
    sys.stderr.flush()
    pid = os.fork()
    if pid == 0:
        code = 0
        try:
            os.close(r)
            signal.signal(signal.SIGALRM, _alarm)
            signal.alarm(int(soft))
            try:
                faulthandler.dump_traceback_later(hard - 2 if hard > 4 else hard, exit=False)
            except Exception:
                pass
            try:
                out = {'ok': fn()}
            except SoftTimeout:
                out = {'harness': 'timeout', 'tb': traceback.format_exc()[-1500:]}
            except BaseException as e:  # noqa
                out = {'harness': 'crash', 'exc': repr(e)[:500],
                       'tb': traceback.format_exc()[-3000:]}
            signal.alarm(0)
            data = json.dumps(out, default=str).encode()
            off = 0
            while off < len(data):
                off += os.write(w, data[off:off + 65536])
        except BaseException:
            code = 3
        finally:
            os._exit(code)
    os.close(w)
    chunks = []
    deadline = time.monotonic() + hard
    killed = False
    while True:
        left = deadline - time.monotonic()
        if left <= 0:
            killed = True
            break
        rl, _, _ = select.select([r], [], [], min(left, 5.0))
        if rl:
            b = os.read(r, 1 << 20)
            if not b:
                break
            chunks.append(b)
    os.close(r)
    if killed:
        try:
            os.kill(pid, signal.SIGKILL)
        except ProcessLookupError:
            pass
    _, status = os.waitpid(pid, 0)
    if killed:
        return {'harness': 'killed'}
    if os.WIFSIGNALED(status):
        return {'harness': 'signal', 'sig': os.WTERMSIG(status)}
    data = b''.join(chunks)
    if not data:
        return {'harness': 'nodata', 'status': status}
    try:
        return json.loads(data)
    except Exception as e:
        return {'harness': 'badjson', 'exc': repr(e)}


def local_call(fn, soft=120):
    """Run fn() in this process (no fork) under a soft alarm; same result shape as fork_call.
    Used by checks whose runs rebuild all the state they study (the fork snapshot is only
    needed where process-global state is the object of study); forks are expensive in this
    sandbox (copy-on-write page faults), see DESIGN.md."""
    old = signal.signal(signal.SIGALRM, _alarm)
    signal.alarm(int(soft))
    try:
        try:
            return {'ok': fn()}
        except SoftTimeout:
            return {'harness': 'timeout', 'tb': traceback.format_exc()[-1500:]}
        except BaseException as e:  # noqa
            return {'harness': 'crash', 'exc': repr(e)[:500], 'tb': traceback.format_exc()[-3000:]}
    finally:
        signal.alarm(0)
        signal.signal(signal.SIGALRM, old)
