"""Seeded PRNG sub-streams.  One integer (VERIF_SEED) decides everything; every
consumer draws from its own SHA-256-keyed stream so that adding a consumer never
shifts the draws of another."""
import hashlib
import random


def _key(labels):
    h = hashlib.sha256(repr(tuple(labels)).encode()).digest()
    return int.from_bytes(h[:16], 'big')


class SimRng(random.Random):
    def __init__(self, *labels):
        self.labels = tuple(labels)
        super().__init__(_key(labels))

    def sub(self, *labels):
        return SimRng(*(self.labels + tuple(labels)))

    def chance(self, p):
        return self.random() < p

    def pick(self, seq):
        return seq[self.randrange(len(seq))]

    def weighted(self, pairs):
        """pairs: list of (item, weight)"""
        tot = sum(w for _, w in pairs)
        x = self.random() * tot
        acc = 0.0
        for it, w in pairs:
            acc += w
            if x < acc:
                return it
        return pairs[-1][0]


def hashseed_for(seed, world):
    return _key(('hashseed', seed, world)) % (2 ** 32)
