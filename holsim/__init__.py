"""holsim - deterministic simulation harness for holpy (see /verif/DESIGN.md)."""
