"""Parent driver: spawns world interpreters (each with its own PYTHONHASHSEED derived
from VERIF_SEED), aggregates, confirms violations by replay in a fresh world,
matches known findings, writes evidence, decides the exit code.

exit 0: property held on everything explored (KNOWN-FINDING lines allowed)
exit 1: at least one `VIOLATION property=<id> replay=<path>` line
exit 2: harness error (crash / time-out of the harness itself); never a verdict."""
import argparse
import concurrent.futures as cf
import importlib
import json
import os
import subprocess
import sys
import time

HERE = os.path.dirname(os.path.abspath(__file__))
VERIF = os.path.dirname(HERE)
REPO = os.environ.get('HOLPY_REPO', '/repo')
PY = os.environ.get('HOLPY_PYTHON', '/venv/bin/python')
DEFAULT_SEED = {'quick': 20260923, 'thorough': 20260924}


def spawn_world(prop, seed, world, tier, mode, extra, hashseed=None, timeout=3600):
    from holsim.rng import hashseed_for
    env = dict(os.environ)
    env['PYTHONHASHSEED'] = str(hashseed if hashseed is not None else hashseed_for(seed, world))
    env['PYTHONDONTWRITEBYTECODE'] = '1'
    env['HOLPY_REPO'] = REPO
    env.pop('PYTHONPATH', None)
    cmd = [PY, '-u', os.path.join(HERE, 'world.py'), '--prop', prop, '--seed', str(seed),
           '--world', str(world), '--tier', tier, '--mode', mode] + extra
    t0 = time.monotonic()
    try:
        p = subprocess.run(cmd, env=env, stdout=subprocess.PIPE, stderr=subprocess.PIPE,
                           timeout=timeout, cwd=VERIF)
    except subprocess.TimeoutExpired as e:
        return {'world': world, 'mode': mode, 'fatal': 'world-timeout',
                'stderr': (e.stderr or b'')[-2000:].decode('utf8', 'replace')}
    try:
        out = json.loads(p.stdout.decode())
    except Exception:
        return {'world': world, 'mode': mode, 'fatal': 'world-crash rc=%s' % p.returncode,
                'stderr': p.stderr[-4000:].decode('utf8', 'replace')}
    out['spawn_wall_s'] = round(time.monotonic() - t0, 2)
    out['stderr_tail'] = p.stderr[-600:].decode('utf8', 'replace')
    return out


def load_known_all():
    try:
        with open(os.path.join(VERIF, 'known_findings.json')) as f:
            return json.load(f).get('findings', [])
    except FileNotFoundError:
        return []


def validate_evidence(ev):
    try:
        import jsonschema
        with open('/root/.vp/EVIDENCE.schema.json') as f:
            schema = json.load(f)
        jsonschema.validate(ev, schema)
        return None
    except ImportError:
        return None
    except FileNotFoundError:
        return None
    except Exception as e:  # validation error
        return str(e)[:500]


def main(argv=None):
    ap = argparse.ArgumentParser()
    ap.add_argument('prop')
    ap.add_argument('--tier', default='quick')
    ap.add_argument('--replay', default=None)
    ap.add_argument('--strict', action='store_true',
                    help='self-test mode: failed determinism/sensitivity -> exit 2')
    ap.add_argument('--workers', type=int, default=0)
    ap.add_argument('--worlds', type=int, default=0)
    ap.add_argument('--runs', type=int, default=0)
    ap.add_argument('--no-selftest', action='store_true')
    ap.add_argument('--no-evidence', action='store_true')
    args = ap.parse_args(argv)

    prop = args.prop.upper()
    tier = os.environ.get('VERIF_TIER') or args.tier
    if tier not in ('quick', 'thorough'):
        tier = 'quick'
    seed = int(os.environ.get('VERIF_SEED') or DEFAULT_SEED[tier])
    workers = args.workers or int(os.environ.get('VERIF_WORKERS') or 0) or min(16, os.cpu_count() or 4)

    sys.path.insert(0, VERIF)
    sys.path.insert(1, REPO)
    print('holsim: property=%s tier=%s VERIF_SEED=%d workers=%d repo=%s' % (prop, tier, seed, workers, REPO))
    sys.stdout.flush()

    if args.replay:
        with open(args.replay) as f:
            rp = json.load(f)
        w = rp['world']['index']
        extra = ['--replay', os.path.abspath(args.replay)]
        if rp.get('needs_prelude'):
            extra += ['--prelude', str(rp.get('prelude_upto', -1))]
        out = spawn_world(prop, rp['verif_seed'], w, rp.get('tier', 'quick'), 'replay', extra,
                          hashseed=rp['world'].get('hashseed'))
        res = out.get('replay', {})
        v = res.get('ok', {}).get('violation') if 'ok' in res else None
        if v and v.get('sig') == rp['violation']['sig']:
            same = res['ok'].get('digest') == rp['violation'].get('log_digest')
            print('replay reproduces: oracle=%s sig=%s digest_equal=%s' % (v.get('oracle'), v.get('sig'), same))
            print('detail: %s' % (v.get('detail'),))
            print('VIOLATION property=%s replay=%s' % (prop, os.path.abspath(args.replay)))
            return 1
        print('replay did NOT reproduce: %s' % json.dumps(res, default=str)[:2000])
        return 0 if 'ok' in res else 2

    mod = importlib.import_module('checks.' + prop.lower())
    tcfg = dict(mod.TIERS[tier])
    worlds = args.worlds or tcfg['worlds']
    runs = args.runs or tcfg['runs']
    det = 0 if args.no_selftest else tcfg.get('det_runs', 8)
    t0 = time.monotonic()
    world_timeout = tcfg.get('world_timeout', 3 * 3600)

    jobs = []
    for w in range(worlds):
        jobs.append(('main', w, None, ['--runs', '0:%d' % runs, '--det', str(det), '--extra-shard', '%d/%d' % (w, worlds)]))
    if det:
        for w in range(min(2, worlds)):
            jobs.append(('det', w, None, ['--runs', '0:%d' % det, '--det', str(det), '--batch', '1',
                                          '--no-minimise']))
        if getattr(mod, 'HASHSEED_INDEPENDENT', False):
            jobs.append(('det-hs', 0, 12345, ['--runs', '0:%d' % det, '--det', str(det), '--no-minimise']))
    variants = [] if args.no_selftest else list(tcfg.get('variants', []))
    for vname in variants:
        jobs.append(('variant:' + vname, 0, None,
                     ['--runs', '0:%d' % tcfg.get('variant_budget', runs), '--variant', vname,
                      '--no-minimise']))

    # long sequential chains (variants) first; a few extra workers so they overlap with the main batch
    jobs.sort(key=lambda j: 0 if j[0].startswith('variant:') else 1)
    workers += tcfg.get('extra_workers', 0)
    results = []
    with cf.ThreadPoolExecutor(max_workers=workers) as ex:
        futs = {}
        for kind, w, hs, extra in jobs:
            mode = 'main'
            futs[ex.submit(spawn_world, prop, seed, w, tier, mode, extra, hs, world_timeout)] = (kind, w)
        for fut in cf.as_completed(futs):
            kind, w = futs[fut]
            results.append((kind, w, fut.result()))

    from holsim.log import Counters
    counters = Counters()
    known_hits = {}
    violations = []
    harness = []
    state_keys = set()
    samples = []
    total_runs = total_ops = 0
    hashseeds = {}
    main_digests = {}
    det_pairs = det_mismatch = 0
    det_notes = []
    sens = {}
    for kind, w, out in sorted(results, key=lambda x: (x[0], x[1])):
        if 'fatal' in out:
            if kind.startswith('variant:'):
                sens[kind[8:]] = 'unavailable (%s)' % out['fatal']
            else:
                harness.append({'world': w, 'kind': kind, 'harness': out['fatal'],
                                'stderr': out.get('stderr', '')[-1500:]})
            continue
        if kind == 'main':
            total_runs += out['runs']
            total_ops += out['ops']
            counters.merge(out['counters'])
            for s, n in out['known_hits'].items():
                known_hits[s] = known_hits.get(s, 0) + n
            for v in out['violations']:
                v['world'] = w
                v['hashseed'] = out['hashseed']
                violations.append(v)
            for h in out['harness']:
                h['world'] = w
                harness.append(h)
            state_keys.update(out['state_keys'])
            if len(samples) < 3:
                samples.extend(out['samples'][:1])
            hashseeds[str(w)] = out['hashseed']
            main_digests[w] = out['digests']
    for kind, w, out in results:
        if 'fatal' in out:
            continue
        if kind in ('det', 'det-hs'):
            for r, d in out['digests'].items():
                det_pairs += 1
                if main_digests.get(w, {}).get(r) != d:
                    det_mismatch += 1
                    det_notes.append({'kind': kind, 'world': w, 'run': r})
            for h in out['harness']:
                harness.append({'world': w, 'kind': kind, **h})
        elif kind.startswith('variant:'):
            fd = out.get('first_detect')
            if fd:
                sens[kind[8:]] = {'detected_after_runs': fd['runs_tried'], 'oracle': fd['oracle']}
            elif out.get('harness'):
                sens[kind[8:]] = 'unavailable (harness: %s)' % str(out['harness'][0])[:200]
            else:
                sens[kind[8:]] = 'NOT DETECTED in %d runs' % out.get('runs', 0)

    # confirm each violation by replaying its file in a fresh world process
    known = [e for e in load_known_all() if e.get('property') == prop]
    known_by_sig = {e['signature']: e for e in known if e.get('status') == 'known'}
    confirmed = []
    known_lines = {}
    seen_final = set()
    for v in violations:
        fs = v.get('final_sig') or v.get('sig')
        if fs in known_by_sig:
            known_hits[fs] = known_hits.get(fs, 0) + v.get('count', 1)
            continue
        if fs in seen_final:
            continue
        seen_final.add(fs)
        out = spawn_world(prop, seed, v['world'], tier, 'replay', ['--replay', v['replay']],
                          hashseed=v['hashseed'])
        res = out.get('replay', {})
        rv = res.get('ok', {}).get('violation') if 'ok' in res else None
        if not (rv and (rv.get('final_sig') or rv.get('sig')) == fs):
            # second attempt: with the process history of the world that found it
            try:
                with open(v['replay']) as f:
                    rp = json.load(f)
            except Exception:
                rp = {}
            if rp.get('prelude_upto', -1) >= 0:
                out = spawn_world(prop, seed, v['world'], tier, 'replay',
                                  ['--replay', v['replay'], '--prelude', str(rp['prelude_upto'])], hashseed=v['hashseed'])
                res = out.get('replay', {})
                rv = res.get('ok', {}).get('violation') if 'ok' in res else None
                if rv and (rv.get('final_sig') or rv.get('sig')) == fs:
                    rp['needs_prelude'] = True
                    with open(v['replay'], 'w') as f:
                        json.dump(rp, f, indent=1, default=str)
                    v['needs_prelude'] = True
        if rv and (rv.get('final_sig') or rv.get('sig')) == fs:
            confirmed.append(v)
        else:
            harness.append({'world': v['world'], 'harness': 'replay-mismatch', 'sig': fs,
                            'got': json.dumps(res, default=str)[:800]})
    for s, n in known_hits.items():
        if s in known_by_sig:
            known_lines[s] = n

    wall = time.monotonic() - t0
    for s, n in sorted(known_lines.items()):
        print('KNOWN-FINDING: property=%s %s [signature=%s, hits=%d]' % (
            prop, known_by_sig[s].get('what_fails', ''), s, n))
    for v in confirmed:
        print('violation:%s oracle=%s sig=%s world=%s run=%s ops %s->%s detail=%s' % (
            ' [needs the process history of runs 0..N of its world, replayed as prelude]' if v.get('needs_prelude') else '',
            v.get('oracle'), v.get('final_sig') or v.get('sig'), v['world'], v['run'],
            v.get('orig_len'), v.get('min_len'), str(v.get('detail'))[:600]))
        print('VIOLATION property=%s replay=%s' % (prop, v['replay']))
    for h in harness[:10]:
        print('HARNESS-ERROR: %s' % json.dumps(h, default=str)[:1500])
    if det_pairs:
        print('determinism self-test: %d pairs, %d mismatches %s' % (det_pairs, det_mismatch, det_notes[:5] or ''))
    for k, s in sorted(sens.items()):
        print('sensitivity %-28s %s' % (k, s))

    desc = mod.describe()
    rate = total_runs / wall * 3600 if wall > 0 else 0
    cov = {
        'evaluations': int(total_runs),
        'distinct_nontrivial': int(len(state_keys)),
        'rule': desc['rule'],
        'samples': samples or [{'note': 'no sample captured'}],
        'ops_executed': int(total_ops),
        'runs_per_hour': int(rate),
        'ops_per_hour': int(total_ops / wall * 3600) if wall > 0 else 0,
        'worlds': worlds,
        'runs_per_world': runs,
        'world_hashseeds': hashseeds,
        'logical_time': desc.get('logical_time', 'no clock is read by the anchored code; logical ticks = ops executed'),
        'counters': counters,
        'faults': {k: v for k, v in counters.items() if k.startswith('fault')},
        'known_finding_hits': known_lines,
        'determinism_selftest': {'pairs': det_pairs, 'mismatches': det_mismatch},
        'sensitivity_selftest': sens,
        'components_real': desc.get('real', []),
        'components_stubbed': desc.get('stubs', []),
        'harness_errors': len(harness),
    }
    ev = {'property_id': prop, 'tier': tier, 'seed': seed, 'level': 'exploration',
          'coverage': cov, 'assumptions': desc.get('assumptions', []),
          'wall_s': round(wall, 2), 'violations': len(confirmed)}
    if cov['distinct_nontrivial'] < 2 or cov['evaluations'] < 1:
        harness.append({'harness': 'no coverage'})
    if not args.no_evidence:
        err = validate_evidence(ev)
        if err:
            print('HARNESS-ERROR: evidence does not validate: %s' % err)
        os.makedirs(os.path.join(VERIF, 'evidence'), exist_ok=True)
        with open(os.path.join(VERIF, 'evidence', prop + '.json'), 'w') as f:
            json.dump(ev, f, indent=1, sort_keys=True, default=str)
    print('holsim: %s %s runs=%d ops=%d distinct=%d wall=%.1fs (%.0f runs/h) violations=%d known=%d harness_errors=%d' % (
        prop, tier, total_runs, total_ops, len(state_keys), wall, rate, len(confirmed),
        len(known_lines), len(harness)))
    if confirmed:
        return 1
    if harness:
        return 2
    if args.strict and (det_mismatch or any(isinstance(s, str) and s.startswith('NOT') for s in sens.values())):
        return 2
    return 0
