"""Delta debugging over op lists.  `test(ops)` must return True when the same
violation class still occurs; each call is expected to run in a fresh fork."""


def ddmin(ops, test, shrink_op=None, max_tests=150):
    """Returns a (locally) minimal op list for which test() is True."""
    tests = [0]

    def t(cand):
        if tests[0] >= max_tests:
            return False
        tests[0] += 1
        return test(cand)

    cur = list(ops)
    n = 2
    while len(cur) >= 2 and tests[0] < max_tests:
        chunk = max(1, len(cur) // n)
        reduced = False
        i = 0
        while i < len(cur):
            cand = cur[:i] + cur[i + chunk:]
            if cand and t(cand):
                cur = cand
                n = max(n - 1, 2)
                reduced = True
            else:
                i += chunk
        if not reduced:
            if chunk == 1:
                break
            n = min(len(cur), n * 2)
    # single-op removal pass
    i = 0
    while i < len(cur) and len(cur) > 1 and tests[0] < max_tests:
        cand = cur[:i] + cur[i + 1:]
        if t(cand):
            cur = cand
        else:
            i += 1
    # argument simplification
    if shrink_op is not None:
        changed = True
        while changed and tests[0] < max_tests:
            changed = False
            for i, op in enumerate(cur):
                for simpler in shrink_op(op):
                    if simpler == op:
                        continue
                    cand = cur[:i] + [simpler] + cur[i + 1:]
                    if t(cand):
                        cur = cand
                        changed = True
                        break
    return cur, tests[0]
