"""World process: one interpreter with a fixed PYTHONHASHSEED.  Warm up once, then
fork a child per run (or per batch of runs), collect results, minimise and write
replay files for violations.  Prints exactly one JSON document on the original
stdout; everything else goes to stderr."""
import argparse
import gc
import importlib
import json
import os
import sys
import time

HERE = os.path.dirname(os.path.abspath(__file__))
VERIF = os.path.dirname(HERE)
REPO = os.environ.get('HOLPY_REPO', '/repo')


def setup_paths():
    for p in (VERIF, REPO):
        if p not in sys.path:
            sys.path.insert(0, p)


def load_known(prop):
    path = os.path.join(VERIF, 'known_findings.json')
    try:
        with open(path) as f:
            data = json.load(f)
    except FileNotFoundError:
        return []
    return [e for e in data.get('findings', [])
            if e.get('property') == prop and e.get('status') == 'known']


def main():
    ap = argparse.ArgumentParser()
    ap.add_argument('--prop', required=True)
    ap.add_argument('--seed', type=int, required=True)
    ap.add_argument('--world', type=int, required=True)
    ap.add_argument('--tier', default='quick')
    ap.add_argument('--mode', default='main')
    ap.add_argument('--runs', default='0:1')
    ap.add_argument('--batch', type=int, default=0)
    ap.add_argument('--variant', default=None)
    ap.add_argument('--replay', default=None)
    ap.add_argument('--out', default=os.path.join(VERIF, 'out'))
    ap.add_argument('--det', type=int, default=0)
    ap.add_argument('--no-minimise', action='store_true')
    ap.add_argument('--extra-shard', default=None)
    ap.add_argument('--prelude', type=int, default=-1)
    args = ap.parse_args()

    proto = os.fdopen(os.dup(1), 'w')
    os.dup2(2, 1)  # anything holpy prints goes to stderr
    sys.stdout = sys.stderr

    setup_paths()
    from holsim import proc
    from holsim.rng import SimRng
    from holsim.minimise import ddmin
    from holsim.log import Counters

    mod = importlib.import_module('checks.' + args.prop.lower())
    tcfg = dict(mod.TIERS[args.tier])
    batch = args.batch or tcfg.get('batch', 1)
    soft = tcfg.get('soft_timeout', 120)
    use_fork = tcfg.get('fork', True)
    known = load_known(args.prop)
    known_sigs = [e['signature'] for e in known]

    gc.disable()
    t0 = time.monotonic()
    os.environ['HOLSIM_TIER'] = args.tier
    mod.warmup()
    gc.collect()
    gc.freeze()  # children never scan (and so never copy-on-write) the warm heap
    warm_s = time.monotonic() - t0

    env = {'variant': args.variant, 'known': known_sigs, 'tier': args.tier,
           'seed': args.seed, 'world': args.world,
           'hashseed': os.environ.get('PYTHONHASHSEED')}

    extras = mod.extra(args.tier) if hasattr(mod, 'extra') else []
    EXTRA_BASE = 10 ** 6

    def gen(r):
        if r >= EXTRA_BASE:
            return extras[r - EXTRA_BASE]
        rng = SimRng(args.seed, 'world', args.world, 'run', r)
        if args.variant and hasattr(mod, 'gen_for_variant'):
            return mod.gen_for_variant(rng, args.tier, args.variant)
        return mod.gen(rng, args.tier)

    def exec_one(cfg, ops, variant=None, resume=None):
        e = dict(env)
        e['variant'] = variant
        if resume is not None:
            e['resume'] = resume
        if variant:
            mod.VARIANTS[variant]()
        return mod.execute(cfg, ops, e)

    def chain(cfg, ops, variant=None):
        """one run = one child forked from the world snapshot; when the run schedules a process
        restart (seam S8) the remaining ops execute in a NEW child of the same snapshot and only
        the text in `continuation` crosses the boundary"""
        import hashlib
        res = proc.fork_call(lambda: exec_one(cfg, ops, variant), soft=soft)
        if 'ok' not in res:
            return res
        acc = res['ok']
        hops = 0
        while acc.get('continuation') is not None and hops < 6:
            cont = acc.pop('continuation')
            hops += 1
            nxt = proc.fork_call(lambda: exec_one(cfg, ops, variant, cont), soft=soft)
            if 'ok' not in nxt:
                return nxt
            n = nxt['ok']
            c = Counters(acc.get('counters', {}))
            c.merge(n.get('counters', {}))
            kh = dict(acc.get('known_hits', {}))
            for k_, v_ in n.get('known_hits', {}).items():
                kh[k_] = kh.get(k_, 0) + v_
            n['counters'] = c
            n['known_hits'] = kh
            n['nops'] = acc.get('nops', 0) + n.get('nops', 0)
            n['digest'] = hashlib.sha256((acc.get('digest', '') + n.get('digest', '')).encode()).hexdigest()[:24]
            n['state_keys'] = sorted(set(acc.get('state_keys', [])) | set(n.get('state_keys', [])))
            n['events'] = (acc.get('events', []) + n.get('events', []))[:20]
            acc = n
        acc.pop('continuation', None)
        return {'ok': acc}

    out = {'world': args.world, 'hashseed': env['hashseed'], 'mode': args.mode,
           'warm_s': round(warm_s, 2)}

    if args.mode == 'replay':
        with open(args.replay) as f:
            rp = json.load(f)
        if args.prelude >= 0:
            # the violation needs the process history of the world that found it (module-level state left
            # by earlier in-process runs): re-create it deterministically by executing those runs first
            for r in range(0, args.prelude + 1):
                try:
                    cfg_, ops_ = gen(r)
                    mod.execute(cfg_, ops_, dict(env))
                except BaseException:
                    pass
            out['prelude_runs'] = args.prelude + 1
        res = chain(rp['config'], rp['ops'], rp.get('variant'))
        out['replay'] = res
        proto.write(json.dumps(out, default=str))
        proto.close()
        return

    a, b = [int(x) for x in args.runs.split(':')]
    runs = list(range(a, b))
    if args.extra_shard:
        w_, n_ = [int(x) for x in args.extra_shard.split('/')]
        runs += [EXTRA_BASE + i for i in range(len(extras)) if i % n_ == w_]

    counters = Counters()
    known_hits = {}
    digests = {}
    violations = []
    harness = []
    state_keys = set()
    samples = []
    nruns = 0
    nops = 0
    seen_sigs = {}
    first_detect = None

    def run_batch(rs, variant):
        def fn():
            res = []
            for r in rs:
                cfg, ops = gen(r)
                x = exec_one(cfg, ops, variant)
                x['run'] = r
                if x.get('violation') or (r - a) < 2:
                    x['cfg'] = cfg
                    x['ops'] = ops
                res.append(x)
                if x.get('violation') and variant:
                    break
            return res
        if use_fork and len(rs) == 1:
            r = rs[0]
            cfg, ops = gen(r)
            one = chain(cfg, ops, variant)
            if 'ok' not in one:
                return one
            x = one['ok']
            x['run'] = r
            if x.get('violation') or (r - a) < 2:
                x['cfg'] = cfg
                x['ops'] = ops
            return {'ok': [x]}
        if use_fork:
            return proc.fork_call(fn, soft=soft * max(1, min(len(rs), 4)))
        try:
            return proc.local_call(fn, soft=soft)
        finally:
            # the cyclic collector is disabled (GC is a scheduled op inside runs); reclaim the cycles a batch
            # leaves behind at a deterministic point between batches, else in-process worlds grow without bound
            gc.collect()

    def same_violation(cfg, ops, sig, variant):
        res = chain(cfg, ops, variant)
        if 'ok' not in res:
            return False, res
        v = res['ok'].get('violation')
        return bool(v and v.get('sig') == sig), res

    i = 0
    stop = False
    while i < len(runs) and not stop:
        rs = runs[i:i + batch]
        i += len(rs)
        res = run_batch(rs, args.variant)
        if 'ok' not in res:
            if len(rs) > 1:
                # isolate the offending run
                for r in rs:
                    one = run_batch([r], args.variant)
                    if 'ok' not in one:
                        harness.append({'run': r, **{k: one[k] for k in one if k != 'ok'}})
                    else:
                        res.setdefault('ok', []).extend(one['ok'])
                res = {'ok': res.get('ok', [])}
            else:
                harness.append({'run': rs[0], **res})
                continue
        for x in res['ok']:
            nruns += 1
            nops += x.get('nops', 0)
            counters.merge(x.get('counters', {}))
            for s, n in x.get('known_hits', {}).items():
                known_hits[s] = known_hits.get(s, 0) + n
            if (x['run'] - a) < max(args.det, 0):
                digests[str(x['run'])] = x.get('digest')
            for k in x.get('state_keys', []):
                if len(state_keys) < 60000:
                    state_keys.add(k)
            if len(samples) < 2 and 'ops' in x and not x.get('violation'):
                samples.append({'run': x['run'], 'config': x.get('cfg'),
                                'ops': x['ops'][:12], 'events': x.get('events', [])[:12]})
            v = x.get('violation')
            if not v:
                continue
            if args.variant:
                first_detect = {'run': x['run'], 'runs_tried': x['run'] - a + 1,
                                'oracle': v.get('oracle'), 'sig': v.get('sig')}
                stop = True
                break
            sig = v.get('sig')
            if sig in seen_sigs:
                seen_sigs[sig]['count'] += 1
                continue
            rec = {'run': x['run'], 'sig': sig, 'oracle': v.get('oracle'),
                   'detail': v.get('detail'), 'count': 1}
            seen_sigs[sig] = rec
            cfg, ops = x['cfg'], x['ops']
            ok, again = same_violation(cfg, ops, sig, None)
            if not ok:
                rec['nondeterministic'] = True
                rec['again'] = {k: again[k] for k in again if k != 'ok'} or \
                    {'violation': again.get('ok', {}).get('violation')}
                harness.append({'run': x['run'], 'harness': 'violation-not-reproducible',
                                'sig': sig, 'detail': v.get('detail')})
                continue
            min_ops, ntests = ops, 0
            if not args.no_minimise:
                min_ops, ntests = ddmin(
                    ops, lambda cand: same_violation(cfg, cand, sig, None)[0],
                    getattr(mod, 'shrink_op', None),
                    max_tests=tcfg.get('min_tests', 120))
            fin = chain(cfg, min_ops, None)
            fv = fin.get('ok', {}).get('violation') or v
            final_sig = fv.get('final_sig') or fv.get('sig')
            rec.update({'final_sig': final_sig, 'min_len': len(min_ops),
                        'orig_len': len(ops), 'min_tests': ntests})
            outdir = os.path.join(args.out, args.prop)
            os.makedirs(outdir, exist_ok=True)
            path = os.path.join(outdir, 's%d-w%d-r%d.min.json' % (args.seed, args.world, x['run']))
            with open(path, 'w') as f:
                json.dump({'property': args.prop, 'tier': args.tier, 'verif_seed': args.seed,
                           'world': {'index': args.world, 'hashseed': env['hashseed']},
                           'run': x['run'], 'config': cfg, 'ops': min_ops,
                           'prelude_upto': (rs[-1] if (not use_fork and rs[-1] < EXTRA_BASE) else -1),
                           'needs_prelude': False,
                           'original_ops': ops,
                           'violation': {'oracle': fv.get('oracle'), 'detail': fv.get('detail'),
                                         'sig': fv.get('sig'), 'final_sig': final_sig,
                                         'event_seq': fv.get('event_seq'),
                                         'log_digest': fin.get('ok', {}).get('digest')}},
                          f, indent=1, default=str)
            rec['replay'] = path
            violations.append(rec)

    out.update({'runs': nruns, 'ops': nops, 'counters': counters, 'known_hits': known_hits,
                'digests': digests, 'violations': violations, 'harness': harness,
                'state_keys': sorted(state_keys), 'samples': samples,
                'dup_sigs': {s: r['count'] for s, r in seen_sigs.items()},
                'first_detect': first_detect, 'variant': args.variant,
                'wall_s': round(time.monotonic() - t0, 2)})
    proto.write(json.dumps(out, default=str))
    proto.close()


if __name__ == '__main__':
    main()
