"""Event log with an incremental SHA-256 digest.  Logging never draws from a PRNG
and never reads a clock."""
import hashlib
import json


def canon(x):
    return json.dumps(x, sort_keys=True, separators=(',', ':'), default=str)


class EventLog:
    def __init__(self, keep=400):
        self._h = hashlib.sha256()
        self.n = 0
        self.keep = keep
        self.events = []

    def add(self, *ev):
        s = canon(ev)
        self._h.update(s.encode())
        self._h.update(b'\n')
        if self.n < self.keep:
            self.events.append(ev)
        self.n += 1

    def digest(self):
        return self._h.hexdigest()[:24]


class Counters(dict):
    def inc(self, k, n=1):
        self[k] = self.get(k, 0) + n

    def merge(self, other):
        for k, v in other.items():
            if isinstance(v, dict):
                d = self.setdefault(k, {})
                for kk, vv in v.items():
                    d[kk] = d.get(kk, 0) + vv
            elif isinstance(v, (int, float)):
                if k.startswith('max_'):
                    self[k] = max(self.get(k, 0), v)
                else:
                    self[k] = self.get(k, 0) + v
