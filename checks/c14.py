"""C14 - every suggested proof step is applicable and does what the suggestion says.

Rides on the C13 simulator (checks/c13.py): sessions over recorded library proofs, multiplexed
over the process globals, with disturbers.  One more session op, SEARCH_APPLY: search methods for
an open goal and 0-2 visible facts; then - possibly after other actors have run - apply EVERY
returned suggestion to a fresh copy of the state and compare the outcome with the advertisement."""
import copy

from holsim.log import EventLog, Counters
from holsim.rng import SimRng
from checks import c13_core as core
from checks import c13

PROPERTY = 'C14'
HASHSEED_INDEPENDENT = False

_VQ = ['search_advertises_one_goal_less', 'backward_search_ignores_prevs', 'forward_fact_not_added']
TIERS = {
    'quick': dict(fork=True, worlds=16, runs=5, batch=1, det_runs=2, soft_timeout=600,
                  variants=_VQ[:1], variant_budget=10, min_tests=25, extra_workers=1),
    'thorough': dict(fork=True, worlds=64, runs=30, batch=1, det_runs=4, soft_timeout=900,
                     variants=_VQ + ['rewrite_search_wrong_sym', 'solves_filter_inverted'],
                     variant_budget=40, min_tests=50),
}

warmup = c13.warmup


def describe():
    return {
        'rule': ('one evaluation = one simulated editing history (as for C13: 1-2 sessions over recorded library proofs, '
                 'disturbers between operations, solver `unknown` faults) in which SEARCH_APPLY ops are scheduled at '
                 'PRNG-chosen prefixes: state.search_method(goal, facts) for an open goal and 0-2 visible fact lines, '
                 'then every returned suggestion is applied to a fresh copy (after other actors have run in a share of '
                 'the cases) and judged: succeeds or asks for named parameters, new open sub-goals among the advertised, '
                 'advertised goals not left open closed by a fact or trivially, `solves` leaves no gap, advertised '
                 'facts appear as new proved lines, original state untouched. distinct_nontrivial counts distinct '
                 '(state digest, goal, facts, suggestion) tuples that were applied.'),
        'real': ['server/method.py search + apply of every registered method', 'logic/tactic.py', 'logic/logic.py', 'data/nat.py',
                 'prover/z3wrapper.py', 'kernel checker'],
        'stubs': ['z3 module as seen by prover/z3wrapper.py -> proxy with deterministic rlimit / injected unknown'],
        'assumptions': ['parameters a suggestion leaves open are supplied from the recorded step, variables in scope and terms of the '
                        'state; when a value had to be guessed (param_*, s) a failing application is not a verdict (counted)',
                        'search_method itself raising is outside the statement (suggestions *returned*); counted as probe'],
    }


def gen(rng, tier):
    ths = c13.theories_for(tier)
    nsess = rng.pick([1, 1, 2])
    cfg = {'tier': tier, 'sessions': [{'theory': rng.pick(ths), 'k': rng.randrange(10000)} for _ in range(nsess)],
           'unknown_p': rng.pick([0.0, 0.0, 0.0, 0.05]), 'seed': rng.randrange(1 << 30),
           'disturb': rng.pick([0.0, 0.3])}
    ops = []
    n = rng.randint(6, 18) * nsess
    for _ in range(n):
        s = rng.randrange(nsess)
        k = rng.weighted([('apply', 55), ('search_apply', 35), ('perturb', 6), ('undo', 2), ('export_import', 2)])
        op = {'op': k, 's': s}
        if k == 'search_apply':
            op.update({'g': rng.randrange(10000), 'nf': rng.pick([0, 0, 1, 1, 2, 2]), 'f': rng.randrange(10000),
                       'gap': rng.chance(0.3), 'd': rng.randrange(10000), 'dk': rng.pick(c13.DISTURB)})
        elif k == 'perturb':
            op.update({'kind': rng.pick(c13.PERTURB), 'a': rng.randrange(10000), 'b': rng.randrange(10000), 'keep': True})
        elif k == 'export_import':
            op['adopt'] = True
        ops.append(op)
    return cfg, ops


def shrink_op(op):
    out = []
    if op['op'] == 'search_apply':
        if op.get('gap'):
            o = dict(op)
            o['gap'] = False
            out.append(o)
        if op.get('nf'):
            o = dict(op)
            o['nf'] = 0
            out.append(o)
    return out


class Runner14(c13.Runner):
    def __init__(self, cfg, env, log, ctr):
        c13.Runner.__init__(self, cfg, env, log, ctr, judge=())
        self.keys = set()

    def verdict(self, s, state, lm, which=None):
        # C13's invariants are not C14's business
        return set()

    def step(self, seq, op):
        if op['op'] != 'search_apply':
            return c13.Runner.step(self, seq, op)
        s = self.sessions[op['s'] % len(self.sessions)]
        if s.dead or s.state is None:
            return
        self.last_actor = s.idx
        s.establish()
        self.search_apply(seq, op, s)

    # ------------------------------------------------------------------
    def search_apply(self, seq, op, s):
        from kernel.proof import ItemID
        from server import method
        from kernel import theory
        ctr, log = self.ctr, self.log
        st = s.state
        gaps = [it for it in core.sorry_items(st.prf)]
        if not gaps:
            return
        goal = gaps[op['g'] % len(gaps)]
        gid = goal.id
        items = core.all_items(st.prf)
        visible = [it for it in items if gid.can_depend_on(it.id) and it.th is not None and it.rule != 'sorry']
        facts = []
        quant = [it for it in visible if it.th.prop.is_forall() or it.th.prop.is_exists()]
        for i in range(min(op['nf'], len(visible))):
            if quant and (op['f'] + i) % 2 == 0:
                f = quant[-1 - ((op['f'] // 2 + i) % min(len(quant), 3))]      # facts that exists_elim / forall_elim accept
            else:
                f = visible[-1 - ((op['f'] + i * 5) % min(len(visible), 4))]
            if str(f.id) not in facts:
                facts.append(str(f.id))
        rec0 = self.next_step(s)
        if rec0 and len(rec0.get('fact_ids') or []) >= 2 and op['f'] % 10 < 7:
            # the facts of the recorded step, selected in another order than the one that works: search tries
            # every permutation and must hand back the one it used
            try:
                g2 = st.get_proof_item(ItemID(rec0['goal_id']))
                if g2.rule == 'sorry' and all(st.get_proof_item(ItemID(f)).th is not None for f in rec0['fact_ids']):
                    gid = ItemID(rec0['goal_id'])
                    facts = list(rec0['fact_ids'])
                    if op['f'] % 2 == 0:
                        facts.reverse()
                    ctr.inc('searches_with_recorded_facts_reordered')
            except Exception:
                pass
        d_before = core.state_digest(st)
        try:
            with c13.op_alarm(90):
                results = st.search_method(str(gid), facts)
        except c13.OpTimeout:
            ctr.inc('op_timeout')
            return
        except Exception as e:
            ctr.inc('probe_search_method_raised')
            log.add(seq, 'search', s.idx, str(gid), facts, 'raised', type(e).__name__)
            return
        ctr.inc('searches')
        if core.state_digest(st) != d_before:
            raise core.Violation('search-mutates', '%s.%s: search_method changed the state' % (s.thm['theory'], s.thm['name']),
                                 'search-mutates-state')
        log.add(seq, 'search', s.idx, str(gid), facts, len(results))
        if op.get('gap'):
            # other actors run between search and apply
            self.disturb(seq, {'kind': op['dk'], 'a': op['d']})
            s.establish()
            ctr.inc('fault_actors_between_search_and_apply')
        rec = self.next_step(s)
        for r in results:
            self.judge_suggestion(seq, s, st, gid, facts, r, rec, d_before)
        if facts and len(gaps) >= 1 and op['g'] % 2 == 0:
            # further searches in the same process, other goals, no facts selected: nothing of the first may leak
            others = [it for it in gaps if str(it.id) != str(gid)] or gaps
            earlier = [it for it in others if not all(it.id.can_depend_on(ItemID(f)) for f in facts)]
            todo = (earlier + [it for it in others if it not in earlier])[:3]
            for g2 in todo:
                gid2 = g2.id
                try:
                    with c13.op_alarm(90):
                        results2 = st.search_method(str(gid2), [])
                except c13.OpTimeout:
                    ctr.inc('op_timeout')
                    return
                except Exception:
                    ctr.inc('probe_search_method_raised')
                    continue
                ctr.inc('searches')
                ctr.inc('follow_up_searches_without_facts')
                log.add(seq, 'search2', s.idx, str(gid2), len(results2))
                for r in results2:
                    self.judge_suggestion(seq, s, st, gid2, [], r, rec, d_before)

    def judge_suggestion(self, seq, s, st, gid, facts, r, rec, d_before):
        from server import method
        from kernel import theory
        from logic import logic
        from kernel.thm import Thm
        ctr = self.ctr
        name = r['method_name']
        m = method.global_methods[name]
        step = {k: v for k, v in r.items() if not k.startswith('_') and k != 'display'}
        adv_goal = r.get('_goal')
        adv_fact = r.get('_fact') or []
        guessed = False
        queried = False
        # parameters the method declares and the suggestion leaves open
        for p in m.sig:
            if p not in step:
                val, g = self.supply(s, st, gid, name, p, step, rec)
                if val is None:
                    ctr.inc('suggestions_unresolved')
                    return
                step[p] = val
                guessed = guessed or g
        if name == 'introduction' and 'names' not in step:
            step['names'] = self.fresh_names(st, gid, s)
        key = (core.state_digest(st), str(gid), tuple(facts), name, step.get('theorem'), step.get('sym'))
        self.keys.add(repr(key))
        where = '%s.%s goal %s facts %s: %s' % (s.thm['theory'], s.thm['name'], gid, facts,
                                               {k: v for k, v in step.items() if k not in ('goal_id', 'fact_ids')})
        cp = None
        u0 = self.proxy.unknown
        for rounds in range(3):
            cp = copy.copy(st)
            try:
                with c13.op_alarm(60):
                    method.apply_method(cp, step)
                break
            except theory.ParameterQueryException as e:
                ctr.inc('parameter_queries')
                queried = True
                ok = True
                for p in e.params:
                    val, g = self.supply(s, st, gid, name, p, step, rec)
                    if val is None:
                        ok = False
                        break
                    step[p] = val
                    guessed = guessed or g
                if not ok or rounds == 2:
                    ctr.inc('suggestions_unresolved')
                    return
                continue
            except c13.OpTimeout:
                ctr.inc('op_timeout')
                return
            except Exception as e:
                if self.proxy.unknown > u0:
                    ctr.inc('oracle_inconclusive_solver_unknown')
                    return
                if guessed:
                    ctr.inc('failed_with_guessed_params')
                    return
                self.report('fails-outright/%s/%s' % (name, type(e).__name__), 'fails-outright',
                            'suggestion fails outright with %s: %s; %s' % (type(e).__name__, str(e)[:200], where))
                return
        ctr.inc('suggestions_applied')
        if core.state_digest(st) != d_before:
            raise core.Violation('original-changed', 'applying a suggestion to a copy changed the original; ' + where,
                                 'original-changed/%s' % name)
        # outcome vs advertisement
        before = [core._term_key(it.th.prop) for it in core.sorry_items(st.prf)]
        after_items = core.sorry_items(cp.prf)
        after = [core._term_key(it.th.prop) for it in after_items]
        goal_key = core._term_key(st.get_proof_item(gid).th.prop)
        rest = list(before)
        if adv_goal is not None and goal_key in rest:
            rest.remove(goal_key)
        new = list(after)
        for k in rest:
            if k in new:
                new.remove(k)
        if adv_goal is not None:
            adv_keys = [core._term_key(t) for t in adv_goal]
            for k in new:
                if k not in adv_keys:
                    t = [it.th for it in after_items if core._term_key(it.th.prop) == k]
                    self.report('unadvertised-goal/%s' % name, 'unadvertised-goal',
                                'suggestion leaves the open sub-goal %s which it did not advertise (advertised: %s); %s' % (
                                    t[0] if t else k, [str(t) for t in adv_goal], where))
                    return
            if not adv_goal and new:
                self.report('solves-but-leaves-gap/%s' % name, 'solves-but-leaves-gap',
                            'suggestion advertised as solving leaves %d new gap(s); %s' % (len(new), where))
                return
            proved = set(core._term_key(it.th.prop) for it in core.all_items(cp.prf) if it.rule != 'sorry' and it.th is not None)
            for t, k in zip(adv_goal, adv_keys):
                if k not in after and k not in proved:     # left open (possibly merged with an earlier gap) or closed
                    try:
                        triv = logic.trivial_macro().can_eval(t)
                    except Exception:
                        triv = False
                    if not triv:
                        self.report('advertised-goal-vanished/%s' % name, 'advertised-goal-vanished',
                                    'advertised sub-goal %s is neither left open nor closed by a fact or trivially; %s' % (t, where))
                        return
        if adv_fact and (guessed or queried):
            # the proved line is an instance of the advertised fact under the supplied parameters
            ctr.inc('fact_check_skipped_parameters_supplied')
        elif adv_fact:
            b_lines = [core._term_key(it.th.prop) for it in core.all_items(st.prf) if it.rule != 'sorry' and it.th is not None]
            a_lines = [core._term_key(it.th.prop) for it in core.all_items(cp.prf) if it.rule != 'sorry' and it.th is not None]
            for t in adv_fact:
                k = core._term_key(t)
                if a_lines.count(k) <= b_lines.count(k):
                    self.report('advertised-fact-missing/%s' % name, 'advertised-fact-missing',
                                'advertised new fact %s does not appear as a new proved line; %s' % (t, where))
                    return
        ctr.inc('suggestions_consistent')

    def report(self, sig, oracle, detail):
        if sig in self.known:
            self.known_hits[sig] = self.known_hits.get(sig, 0) + 1
            return
        if self.env.get('collect') is not None:
            self.env['collect'].setdefault(sig, detail[:300])
            return
        raise core.Violation(oracle, detail, sig)

    # ------------------------------------------------------------------
    def fresh_names(self, st, gid, s):
        prop = st.get_proof_item(gid).th.prop
        n = 0
        t = prop
        while t.is_forall():
            n += 1
            t = t.arg.body
        used = set(st.get_vars(gid).keys())
        names = []
        i = 0
        while len(names) < n:
            nm = 'u%d' % i
            i += 1
            if nm not in used:
                names.append(nm)
        return ', '.join(names)

    def supply(self, s, st, gid, name, p, step, rec):
        """value for declared parameter p; returns (value, guessed)"""
        from syntax import printer
        from syntax.settings import global_setting
        from kernel import theory
        if rec and rec.get('method_name') == name and p in rec and \
                all(rec.get(k) == v for k, v in step.items() if k in rec and k not in ('goal_id', 'fact_ids')) and \
                rec.get('goal_id') == str(gid):
            return rec[p], False
        if p == 'names':
            if name == 'introduction':
                return self.fresh_names(st, gid, s), False
            # exists_elim: one fresh name per leading existential of the fact
            try:
                th = st.get_proof_item(step['fact_ids'][0]).th
                n = 0
                t = th.prop
                while t.is_exists():
                    n += 1
                    t = t.arg.body
                used = set(st.get_vars(gid).keys())
                names = [nm for nm in ('e%d' % i for i in range(50)) if nm not in used][:max(n, 1)]
                return ', '.join(names), False
            except Exception:
                return None, True
        if p == 'sym':
            return 'false', True
        vars_in_scope = st.get_vars(gid)
        if p == 's' or p.startswith('param_') or p == 'var':
            want_T = None
            if p.startswith('param_') and 'theorem' in step:
                try:
                    th = theory.get_theorem(step['theorem'])
                    for v in th.prop.get_svars():
                        if v.name == p[6:]:
                            want_T = v.T
                except Exception:
                    pass
            cands = []
            for nm in sorted(vars_in_scope):
                T = vars_in_scope[nm]
                if want_T is None:
                    cands.append(nm)
                else:
                    try:
                        want_T.match(T)
                        cands.append(nm)
                    except Exception:
                        pass
            if not cands:
                return None, True
            return cands[0], True
        return None, True


def execute(cfg, ops, env):
    log = EventLog()
    ctr = Counters()
    res = {'violation': None, 'known_hits': {}, 'nops': 0, 'state_keys': []}
    r = Runner14(cfg, env, log, ctr)
    env = dict(env)
    try:
        r.open_sessions()
        for seq, op in enumerate(ops):
            ctr.inc('ops')
            ctr.inc('op_' + op['op'])
            r.step(seq, op)
    except core.Violation as v:
        res['violation'] = {'oracle': v.oracle, 'detail': str(v.detail)[:1800], 'sig': v.sig, 'event_seq': log.n}
    except c13.OpTimeout:
        ctr.inc('op_timeout')
    r.proxy.inject = None
    ctr['solver_checks'] = r.proxy.checks
    ctr['fault_solver_unknown'] = r.proxy.unknown
    res['known_hits'] = r.known_hits
    res['nops'] = ctr.get('ops', 0)
    res['digest'] = log.digest()
    res['counters'] = ctr
    res['events'] = log.events[:14]
    import hashlib
    res['state_keys'] = sorted(hashlib.sha1(k.encode()).hexdigest()[:14] for k in r.keys)[:400]
    return res


# ---------------------------------------------------------------- sensitivity variants

def _ps(owner, name, old, new):
    from holsim.seams import patch_source
    patch_source(owner, name, old, new)


def _v_goal_less():
    from server import method
    _ps(method.rewrite_goal_with_prev, 'search', 'return [{"_goal": [gap.prop for gap in pt.gaps]}]',
        'return [{"_goal": [gap.prop for gap in pt.gaps][1:]}]')
    _ps(method.global_methods['apply_backward_step'].__class__, 'search',
        'results.append({"theorem": th_name, "_goal": [gap.prop for gap in pt.gaps]})',
        'results.append({"theorem": th_name, "_goal": [gap.prop for gap in pt.gaps][1:]})')


def _v_backward_prevs():
    from server import method
    cls = method.global_methods['apply_backward_step'].__class__
    _ps(cls, 'apply', "prevs=prevs)", "prevs=prevs[:0])")


def _v_forward_fact():
    from server import method
    cls = method.global_methods['apply_forward_step'].__class__
    _ps(cls, 'apply', "        state.add_line_before(id, 1)\n        if inst:", "        state.add_line_before(id, 1)\n        return\n        if inst:")


def _v_rewrite_sym():
    from server import method
    _ps(method.global_methods['rewrite_goal'].__class__, 'apply', "if 'sym' in data and data['sym'] == 'true':", "if 'sym' in data and data['sym'] != 'true':")


def _v_solves_filter():
    from server import method
    _ps(method.ProofState, 'search_method', "results = list(filter(lambda r: '_goal' in r and len(r['_goal']) == 0, results))",
        "results = list(filter(lambda r: not ('_goal' in r and len(r['_goal']) == 0), results)) or results")


VARIANTS = {
    'search_advertises_one_goal_less': _v_goal_less,
    'backward_search_ignores_prevs': _v_backward_prevs,
    'forward_fact_not_added': _v_forward_fact,
    'rewrite_search_wrong_sym': _v_rewrite_sym,
    'solves_filter_inverted': _v_solves_filter,
}
