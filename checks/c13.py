"""C13 - proof editing preserves the goal and keeps the partial proof checkable.

Simulated system: server/method.py, server/server.py, kernel/proof.py, kernel/proofterm.py,
the checker, logic/tactic.py, printer/parser (real code), and app/ide.py's ProofCache and
request handlers behind a stub transport (web layer, see c13_web.py).

Actors: 1-3 editing sessions over recorded library proofs, multiplexed over the process
globals (theory.thy, context.ctxt, printer settings and memo), and disturbers doing what other
requests do in between.  Faults: operations failing half-way on a copy, the solver answering
`unknown` (seam S9), process restart with only exported text surviving (seam S8).
Oracles: the statement's invariants I1-I6 after every completed operation."""
import copy
import gc
import json
import os
import signal

from holsim.log import EventLog, Counters
from holsim.rng import SimRng
from checks import c13_core as core

PROPERTY = 'C13'
HASHSEED_INDEPENDENT = False

_VQ = ['copy_shares_subproof', 'decr_id_off_by_one', 'incr_id_ignores_depth', 'find_goal_ignores_hyps',
       'state_copy_shares_proof']
TIERS = {
    'quick': dict(fork=True, worlds=16, runs=5, batch=1, det_runs=2, soft_timeout=600,
                  variants=['copy_shares_subproof', 'state_copy_shares_proof'], variant_budget=10, min_tests=30, extra_workers=2),
    'thorough': dict(fork=True, worlds=64, runs=25, batch=1, det_runs=4, soft_timeout=900,
                     variants=_VQ + ['replace_id_keeps_line', 'export_drops_prevs', 'apply_tactic_no_trivial_check'],
                     variant_budget=40, min_tests=60),
}

_w = {}


def theories_for(tier):
    return core.QUICK_THEORIES if tier == 'quick' else core.THOROUGH_THEORIES


def warmup():
    from logic import basic, context  # noqa
    from server import server, method  # noqa
    import data.nat, data.set, data.function, data.list  # noqa
    for m in ('data.expr', 'data.integer', 'data.real', 'prover.omega', 'imperative.imp'):
        try:
            __import__(m)
        except Exception:
            pass
    ths = core.QUICK_THEORIES if os.environ.get('HOLSIM_TIER') == 'quick' else core.THOROUGH_THEORIES
    for th in ths:
        try:
            basic.load_theory(th)
        except Exception:
            pass
    core.install_solver_seam()
    core.load_corpus(ths)
    try:
        from checks import c13_web
        c13_web.load_ide()      # real handlers of app/ide.py behind the stub transport
    except Exception as e:
        _w['web_unavailable'] = repr(e)


def describe():
    return {
        'rule': ('one evaluation = one simulated editing history: 1-3 sessions, each bound to a library theorem with '
                 'recorded steps, run <=25 ops each (apply the next recorded step on the live state or on a copy, '
                 'perturbed applications: other goal / other facts / repeated / cut / cases / introduction / '
                 'forall_elim / exists_elim / revert_intro / new_var / apply_fact, undo, an operation failing half-way '
                 'on a copy, export->re-import, process restart) interleaved with disturbers (loads of other theories '
                 'and limits, printing under other settings, parsing in other contexts, parse_proof, check-modify style '
                 'extension, gc) and solver `unknown` faults. After every completed op I1-I6 of the statement are '
                 'evaluated. distinct_nontrivial counts distinct event-log digests of runs in which at least one '
                 'operation ran on a copy or between two ops of one session another actor ran.'),
        'real': ['server/method.py', 'server/server.py', 'kernel/proof.py', 'kernel/proofterm.py', 'kernel/theory.py check_proof',
                 'logic/tactic.py', 'logic/logic.py', 'syntax/printer.py', 'syntax/parser.py', 'prover/z3wrapper.py (Z3 runs for real)'],
        'stubs': ['z3 module as seen by prover/z3wrapper.py -> proxy setting a deterministic rlimit and injecting `unknown`',
                  'Flask transport (web layer)'],
        'assumptions': ['an operation that raises did not complete: its only judged effect is on copies / the undo stack (I6)',
                        'known findings are matched by (invariant, failing rule, exception class, message kind, introducing method)',
                        'oracle evaluations during which the solver answered unknown are inconclusive, never verdicts'],
    }


# ---------------------------------------------------------------- generation

PERTURB = ['other_goal', 'other_facts', 'repeat', 'cut', 'cases', 'introduction', 'forall_elim', 'exists_elim',
           'revert_intro', 'new_var', 'apply_fact', 'apply_prev', 'rewrite_goal_with_prev',
           'search_step', 'search_step', 'search_step', 'search_last_gap', 'search_last_gap']
DISTURB = ['load_other', 'load_same_other_limit', 'print_settings', 'parse_other_context', 'parse_proof_other',
           'extend', 'gc', 'fresh_theory']


def gen(rng, tier):
    ths = theories_for(tier)
    nsess = rng.pick([1, 1, 2, 2, 3])
    cfg = {'tier': tier, 'sessions': [{'theory': rng.pick(ths), 'k': rng.randrange(10000)} for _ in range(nsess)],
           'unknown_p': rng.pick([0.0, 0.0, 0.0, 0.03, 0.15]), 'seed': rng.randrange(1 << 30),
           'disturb': rng.pick([0.0, 0.2, 0.4])}
    if rng.chance(0.35):
        return gen_web(rng, tier, cfg, nsess)
    ops = []
    n = rng.randint(8, 25) * nsess
    # 'last_gap_first': goals are worked out of order - search-suggested steps on the LAST open goal (which do not
    # shift the ids of earlier lines, so the recorded steps keep applying and insert lines before finished sub-proofs)
    style = 'last_gap_first' if rng.chance(0.3) else 'recorded'
    cfg['style'] = style
    for _ in range(n):
        s = rng.randrange(nsess)
        if rng.chance(cfg['disturb']):
            ops.append({'op': 'disturb', 'kind': rng.pick(DISTURB), 'a': rng.randrange(10000)})
        k = rng.weighted([('apply', 50), ('apply_copy', 12), ('perturb', 18 if style == 'recorded' else 60), ('undo', 4),
                          ('fail_on_copy', 5), ('export_import', 5), ('restart', 1.5)])
        op = {'op': k, 's': s}
        if k == 'apply_copy':
            op['keep'] = rng.chance(0.6)
        elif k == 'perturb':
            op.update({'kind': rng.pick(PERTURB), 'a': rng.randrange(10000), 'b': rng.randrange(10000), 'keep': rng.chance(0.25)})
            if style == 'last_gap_first' and rng.chance(0.8):
                op['kind'] = 'search_last_gap'
            if op['kind'].startswith('search'):
                op['keep'] = rng.chance(0.7 if style == 'recorded' else 0.9)
        elif k == 'fail_on_copy':
            op['k'] = rng.randint(1, 3)
        elif k == 'export_import':
            op['adopt'] = rng.chance(0.5)
        ops.append(op)
    return cfg, ops


WEB_DISTURB = ['check_modify_later', 'check_modify_other', 'load_json_file', 'find_files', 'gc']


def gen_web(rng, tier, cfg, nsess):
    """web layer: only JSON payloads a browser sends reach the real handlers of app/ide.py"""
    cfg['layer'] = 'web'
    cfg['unknown_p'] = 0.0
    ops = []
    n = rng.randint(6, 16) * nsess
    for _ in range(n):
        s = rng.randrange(nsess)
        if rng.chance(cfg['disturb'] + 0.1):
            ops.append({'op': 'wdisturb', 'kind': rng.pick(WEB_DISTURB), 'a': rng.randrange(10000), 's': s})
        k = rng.weighted([('wapply', 55), ('winit', 10), ('wdup', 6), ('wstale', 6), ('wself_cite', 8), ('wsearch', 8)])
        if k == 'wself_cite' and rng.chance(0.6):
            # bias the fault to land right before the operation that can observe it
            ops.append({'op': 'wdisturb', 'kind': 'check_modify_later', 'a': rng.randrange(10000), 's': s})
        ops.append({'op': k, 's': s, 'a': rng.randrange(10000), 'b': rng.randrange(10000)})
    return cfg, ops


def shrink_op(op):
    out = []
    if op['op'] in ('apply_copy', 'perturb') and op.get('keep'):
        o = dict(op)
        o['keep'] = False
        out.append(o)
    if op['op'] == 'apply_copy':
        out.append({'op': 'apply', 's': op['s']})
    return out


# ---------------------------------------------------------------- sessions

class OpTimeout(Exception):
    pass


class Injected(Exception):
    pass


class op_alarm:
    """soft per-op alarm nested inside the run's alarm (both SIGALRM)"""

    def __init__(self, sec):
        self.sec = sec

    def __enter__(self):
        self.left = signal.alarm(0)
        self.old = signal.signal(signal.SIGALRM, self._fire)
        signal.alarm(self.sec)

    def _fire(self, s, f):
        raise OpTimeout()

    def __exit__(self, *a):
        signal.alarm(0)
        signal.signal(signal.SIGALRM, self.old)
        if self.left:
            signal.alarm(max(1, self.left - 1))
        return False


class Session:
    def __init__(self, idx, thm):
        self.idx = idx
        self.thm = thm
        self.state = None
        self.goal = None
        self.ptr = 0
        self.undo = []          # [(state copy, ptr, digest)]
        self.carried = set()
        self.dead = None
        self.last_method = None

    def establish(self):
        from logic import context
        context.set_context(self.thm['theory'], limit=('thm', self.thm['name']), vars=self.thm['vars'])

    def ctxinfo(self):
        return {'vars': self.thm['vars']}


class Runner:
    def __init__(self, cfg, env, log, ctr, judge=('I1', 'I2', 'I3', 'I4', 'I5')):
        self.cfg, self.env, self.log, self.ctr = cfg, env, log, ctr
        self.known = set(env.get('known') or [])
        self.known_hits = {}
        self.proxy = core.install_solver_seam()
        rng = SimRng('c13-unknown', cfg.get('seed', 0))
        p = cfg.get('unknown_p', 0.0)
        self.proxy.inject = (lambda: rng.random() < p) if p > 0 else None
        self.proxy.unknown = 0
        self.judge = judge
        self.sessions = []
        self.interleaved = False
        self.used_copy = False
        self.last_actor = None

    # ----- setup
    def open_sessions(self):
        corpus_all = {}
        for i, sc in enumerate(self.cfg['sessions']):
            lst = corpus_all.setdefault(sc['theory'], core.load_corpus([sc['theory']]))
            if not lst:
                lst = core.load_corpus(['logic_base'])
            thm = lst[sc['k'] % len(lst)]
            s = Session(i, thm)
            self.sessions.append(s)
            self.start(s)

    def start(self, s):
        from server import server
        if self.cfg.get('layer') == 'web':
            s.steps = []
            s.webdead = None
            try:
                s.establish()
                s.goal = server.parse_init_state(s.thm['prop']).prf.items[-1].th
            except Exception as e:
                s.dead = 'init:' + type(e).__name__
                return
            self.log.add('open-web', s.idx, s.thm['theory'], s.thm['name'])
            return
        try:
            s.establish()
            s.state = server.parse_init_state(s.thm['prop'])
            s.goal = s.state.prf.items[-1].th
        except Exception as e:
            s.dead = 'init:' + type(e).__name__
            self.ctr.inc('session_init_failed')
            return
        self.log.add('open', s.idx, s.thm['theory'], s.thm['name'])
        self.verdict(s, s.state, 'init')

    # ----- oracles
    def verdict(self, s, state, lm, which=None):
        """I1-I5 on `state`; known findings are recorded, anything else raises Violation"""
        if getattr(s, 'tainted', None):
            # the session continues on a state produced by a PERTURBED revert_intro (known findings I1/I3/I4
            # revert_intro): everything later in this lineage is a consequence of that damage, e.g. recorded fact ids
            # that now denote the goal line.  Copy isolation (I6) is still judged by the callers.
            self.ctr.inc('states_not_judged_after_perturbed_revert_intro')
            return set()
        s.establish()
        u0 = self.proxy.unknown
        with op_alarm(120):
            res = core.check_invariants(state, s.goal, s.ctxinfo(), self.proxy, lm, which or self.judge)
        now = set()
        for sig, oracle, detail in res:
            if sig is None:
                self.ctr.inc('oracle_inconclusive_solver_unknown')
                continue
            key = core.class_key(sig)
            now.add(key)
            if key in s.carried:
                continue
            if sig in self.known:
                self.known_hits[sig] = self.known_hits.get(sig, 0) + 1
                continue
            if self.env.get('collect') is not None:
                self.env['collect'].setdefault(sig, '%s.%s after %s: %s' % (s.thm['theory'], s.thm['name'], lm, detail[:240]))
                continue
            raise core.Violation(oracle, '%s.%s after %s: %s' % (s.thm['theory'], s.thm['name'], lm, detail), sig)
        if state is s.state:
            s.carried = now
        self.ctr.inc('states_judged')
        return now

    def check_undo(self, s, what):
        for st, ptr, dg, _c in s.undo:
            if core.state_digest(st) != dg:
                raise core.Violation('I6', '%s.%s: an earlier copy on the undo stack changed during %s' % (
                    s.thm['theory'], s.thm['name'], what), 'I6/undo-stack/%s' % what)

    # ----- steps
    def next_step(self, s):
        steps = s.thm['steps']
        if s.ptr >= len(steps):
            return None
        return dict(steps[s.ptr])

    def apply(self, state, step):
        from server import method
        with op_alarm(60):
            method.apply_method(state, step)

    def perturbed_step(self, s, op):
        """a step derived from the recorded one or a generic method with arguments drawn from the state"""
        from syntax import printer
        from syntax.settings import global_setting
        st = s.state
        kind = op['kind']
        a, b = op['a'], op['b']
        gaps = [str(it.id) for it in core.sorry_items(st.prf)]
        if not gaps:
            return None
        goal_id = gaps[a % len(gaps)]
        items = core.all_items(st.prf)
        from kernel.proof import ItemID
        gid = ItemID(goal_id)
        visible = [str(it.id) for it in items if gid.can_depend_on(it.id) and it.th is not None and it.rule != 'sorry']
        rec = self.next_step(s) or (dict(s.thm['steps'][(a + b) % len(s.thm['steps'])]) if s.thm['steps'] else None)

        def pterm(t):
            with global_setting(unicode=False, highlight=False):
                return printer.print_term(t)
        gth = st.get_proof_item(gid).th
        if kind in ('search_step', 'search_last_gap'):
            # a step suggested by search for some open goal (goals get worked out of order this way)
            gid2 = gaps[-1] if kind == 'search_last_gap' else goal_id
            facts = []
            if b % 3 == 0 and visible:
                vis2 = [str(it.id) for it in items if ItemID(gid2).can_depend_on(it.id) and it.th is not None and it.rule != 'sorry']
                if vis2:
                    facts = [vis2[-1 - (b // 3) % min(len(vis2), 3)]]
            try:
                with op_alarm(60):
                    res = st.search_method(gid2, facts)
            except OpTimeout:
                raise
            except Exception:
                self.ctr.inc('probe_search_method_raised')
                return None
            res = [r for r in res if all(p in r for p in self._sig(r['method_name']))]
            if not res:
                return None
            r = res[(a // 7) % len(res)]
            step = {k: v for k, v in r.items() if not k.startswith('_') and k != 'display'}
            if step['method_name'] == 'introduction' and 'names' not in step:
                step['names'] = self._intro_names(st, gid2)
            self.ctr.inc('search_suggested_steps')
            return step
        if kind == 'other_goal' and rec:
            rec['goal_id'] = goal_id
            return rec
        if kind == 'other_facts' and rec:
            rec['fact_ids'] = [visible[(b + i) % len(visible)] for i in range(min(len(visible), 1 + b % 2))] if visible else []
            return rec
        if kind == 'repeat' and s.ptr > 0:
            return dict(s.thm['steps'][s.ptr - 1])
        if kind == 'cut':
            cands = [it.th.prop for it in items if it.th is not None]
            return {'method_name': 'cut', 'goal_id': goal_id, 'goal': pterm(cands[b % len(cands)])}
        if kind == 'cases':
            cands = [it.th.prop for it in items if it.th is not None]
            return {'method_name': 'cases', 'goal_id': goal_id, 'case': pterm(cands[b % len(cands)])}
        if kind == 'introduction':
            n = 0
            t = gth.prop
            while t.is_forall():
                n += 1
                t = t.arg.body
            names = ', '.join('v%d_%d' % (b % 7, i) for i in range(n))
            return {'method_name': 'introduction', 'goal_id': goal_id, 'names': names}
        if kind == 'forall_elim' and visible:
            return {'method_name': 'forall_elim', 'goal_id': goal_id, 'fact_ids': [visible[b % len(visible)]],
                    's': rng_pick(list(st.get_vars(gid).keys()) or ['x'], b)}
        if kind == 'exists_elim' and visible:
            return {'method_name': 'exists_elim', 'goal_id': goal_id, 'fact_ids': [visible[b % len(visible)]],
                    'names': 'w%d' % (b % 5)}
        if kind == 'revert_intro' and visible:
            assumes = [str(it.id) for it in items if it.rule == 'assume' and gid.can_depend_on(it.id)]
            if assumes:
                return {'method_name': 'revert_intro', 'goal_id': goal_id, 'fact_ids': [assumes[b % len(assumes)]]}
        if kind == 'new_var':
            return {'method_name': 'new_var', 'goal_id': goal_id, 'name': 'nv%d' % (b % 4), 'type': rng_pick(['bool', 'nat', "'a"], b)}
        if kind in ('apply_fact', 'apply_prev', 'rewrite_goal_with_prev') and visible:
            n = 1 if kind != 'apply_fact' else 2
            return {'method_name': kind, 'goal_id': goal_id,
                    'fact_ids': [visible[(b + i * 3) % len(visible)] for i in range(min(n, len(visible)))]}
        return None

    def _sig(self, name):
        from server import method
        try:
            return list(method.global_methods[name].sig)
        except Exception:
            return []

    def _intro_names(self, st, gid):
        t = st.get_proof_item(gid).th.prop
        n = 0
        while t.is_forall():
            n += 1
            t = t.arg.body
        used = set(st.get_vars(gid).keys())
        names = [nm for nm in ('q%d' % i for i in range(60)) if nm not in used][:n]
        return ', '.join(names)

    # ----- one op
    def step(self, seq, op):
        k = op['op']
        ctr, log = self.ctr, self.log
        if k.startswith('w'):
            return self.web_step(seq, op)
        if k == 'disturb':
            self.last_actor = 'disturber'
            self.disturb(seq, op)
            return
        s = self.sessions[op['s'] % len(self.sessions)]
        if s.dead:
            ctr.inc('ops_on_dead_session')
            return
        if self.last_actor is not None and self.last_actor != s.idx:
            self.interleaved = True
        self.last_actor = s.idx
        s.establish()
        if k == 'apply':
            step = self.next_step(s)
            if step is None:
                return
            backup = copy.copy(s.state)
            d0 = core.state_digest(backup)
            u_before = self.proxy.unknown
            try:
                self.apply(s.state, step)
            except OpTimeout:
                s.dead = 'op_timeout'
                ctr.inc('op_timeout')
                return
            except Exception as e:
                # did not complete: the live state may be half-edited, a user would undo -> restore the copy
                ctr.inc('step_raised')
                log.add(seq, 'apply', s.idx, step['method_name'], 'raised', type(e).__name__)
                if core.state_digest(backup) != d0:
                    raise core.Violation('I6', 'the copy taken before a failing %s changed' % step['method_name'],
                                         'I6/copy-changed-by-failing-op/%s' % step['method_name'])
                s.state = backup
                if self.proxy.unknown == u_before:
                    # the recorded step no longer applies here: no more recorded steps for this session
                    s.ptr = len(s.thm['steps'])
                    ctr.inc('sessions_derailed')
                return
            if core.state_digest(backup) != d0:
                raise core.Violation('I6', '%s.%s: the copy taken before %s changed when the original was edited' % (
                    s.thm['theory'], s.thm['name'], step['method_name']), 'I6/copy-changed/%s' % step['method_name'])
            s.undo.append((backup, s.ptr, d0, set(s.carried)))
            if len(s.undo) > 6:
                s.undo.pop(0)
            s.ptr += 1
            s.last_method = step['method_name']
            log.add(seq, 'apply', s.idx, step['method_name'], core.state_digest(s.state))
            self.check_undo(s, step['method_name'])
            self.verdict(s, s.state, step['method_name'])
        elif k in ('apply_copy', 'perturb'):
            if k == 'apply_copy':
                step = self.next_step(s)
            else:
                try:
                    step = self.perturbed_step(s, op)
                except Exception:
                    step = None
            if step is None:
                return
            self.used_copy = True
            d0 = core.state_digest(s.state)
            cp = copy.copy(s.state)
            try:
                self.apply(cp, step)
                ok = True
            except OpTimeout:
                ctr.inc('op_timeout')
                ok = False
            except Exception as e:
                ok = False
                ctr.inc('copy_op_raised')
                log.add(seq, k, s.idx, step.get('method_name'), 'raised', type(e).__name__)
            if core.state_digest(s.state) != d0:
                raise core.Violation('I6', '%s.%s: the original changed when %s was applied to a copy (%s)' % (
                    s.thm['theory'], s.thm['name'], step.get('method_name'), 'completed' if ok else 'raised'),
                    'I6/original-changed/%s' % step.get('method_name'))
            self.check_undo(s, step.get('method_name'))
            if not ok:
                return
            ctr.inc('perturbed_ops_completed' if k == 'perturb' else 'copy_ops_completed')
            log.add(seq, k, s.idx, step.get('method_name'), core.state_digest(cp), op.get('keep'))
            if op.get('keep'):
                s.undo.append((s.state, s.ptr, d0, set(s.carried)))
                if len(s.undo) > 6:
                    s.undo.pop(0)
                s.state = cp
                if k == 'apply_copy':
                    s.ptr += 1
                s.last_method = step.get('method_name')
                self.verdict(s, s.state, step.get('method_name'))
                if k == 'perturb' and step.get('method_name') == 'revert_intro':
                    s.tainted = 'revert_intro'
            else:
                # judged, then discarded
                carried = set(s.carried)
                self.verdict(s, cp, step.get('method_name'))
                s.carried = carried
        elif k == 'undo':
            if not s.undo:
                return
            st, ptr, dg, carried = s.undo.pop()
            s.state, s.ptr = st, ptr
            s.carried = set(carried)
            if getattr(s, 'tainted', None):
                # conservative: an undo may or may not leave the damaged lineage; stay tainted
                pass
            log.add(seq, 'undo', s.idx, dg)
            self.verdict(s, s.state, 'undo')
        elif k == 'fail_on_copy':
            step = self.next_step(s)
            if step is None:
                return
            self.used_copy = True
            d0 = core.state_digest(s.state)
            cp = copy.copy(s.state)
            count = [op['k']]
            real = cp.check_proof

            def failing(*a, **kw):
                count[0] -= 1
                if count[0] <= 0:
                    raise Injected('operation interrupted (injected)')
                return real(*a, **kw)
            cp.check_proof = failing
            try:
                self.apply(cp, step)
                fired = False
            except Injected:
                fired = True
                ctr.inc('fault_op_failed_halfway_on_copy')
            except OpTimeout:
                fired = False
            except Exception:
                fired = False
            log.add(seq, 'fail_on_copy', s.idx, step['method_name'], fired)
            if core.state_digest(s.state) != d0:
                raise core.Violation('I6', '%s.%s: the original changed when %s failed half-way on a copy' % (
                    s.thm['theory'], s.thm['name'], step['method_name']), 'I6/original-changed-by-failing-op/%s' % step['method_name'])
            self.check_undo(s, step['method_name'])
        elif k == 'export_import':
            from server import server
            from logic import context
            try:
                lines = json.loads(json.dumps(core.export_lines(s.state)))
                context.set_context(None, vars=dict(s.thm['vars']))
                with op_alarm(60):
                    st2 = server.parse_proof(lines)
            except Exception as e:
                # judged by I5 on the same state already
                ctr.inc('export_import_raised')
                return
            log.add(seq, 'export_import', s.idx, core.state_digest(st2), op.get('adopt'))
            if op.get('adopt'):
                s.undo.append((s.state, s.ptr, core.state_digest(s.state), set(s.carried)))
                s.state = st2
                ctr.inc('sessions_continued_on_reimported_proof')
                self.verdict(s, s.state, s.last_method or 'reimport')
        elif k == 'restart':
            return 'restart'

    # ----- web layer ------------------------------------------------------------------------------
    def payload(self, s, steps=None, **extra):
        d = {'username': 'master', 'theory_name': s.thm['theory'], 'thm_name': s.thm['name'],
             'vars': s.thm['vars'], 'prop': s.thm['prop'], 'steps': list(s.steps if steps is None else steps),
             'profile': False}
        d.update(extra)
        return json.loads(json.dumps(d))

    def web_snapshot(self):
        from checks import c13_web as web
        pc = web.proof_cache()
        return [(st, core.state_digest(st)) for st in pc.states]

    def web_check_isolation(self, snap, what):
        from checks import c13_web as web
        pc = web.proof_cache()
        live = set(id(st) for st in pc.states)
        for st, dg in snap:
            if id(st) in live and core.state_digest(st) != dg:
                raise core.Violation('I6', 'a state kept in the server history changed during %s' % what,
                                     'I6/server-history/%s' % what)

    def web_judge(self, s, index, lm, depth=0):
        """judge the state the server keeps at `index` for session s, under the session's own theory and context"""
        from checks import c13_web as web
        import hashlib
        pc = web.proof_cache()
        if not pc.check_cache(self.payload(s)) or index >= len(pc.states):
            return
        # out of scope once a replayed step reported an error (it did not complete)
        for h in pc.history[:index]:
            if 'error' in h:
                self.ctr.inc('web_states_after_errored_step_not_judged')
                return

        def key(i):
            return hashlib.sha1(json.dumps(s.steps[:i], sort_keys=True).encode()).hexdigest()[:12]
        if not hasattr(s, 'wcarried'):
            s.wcarried = {}
        carried = set()
        if index > 0:
            if key(index - 1) not in s.wcarried and depth < 40:
                # what the predecessor state already carries decides what is new here
                self.web_judge(s, index - 1, s.steps[index - 2]['method_name'] if index > 1 else 'init', depth + 1)
            carried = s.wcarried.get(key(index - 1), set())
        st = pc.states[index]
        s.carried = set(carried)
        s.state = st
        try:
            self.verdict(s, st, lm)
            s.wcarried[key(index)] = set(s.carried)
        finally:
            s.state = None

    def web_step(self, seq, op):
        from checks import c13_web as web
        k = op['op']
        ctr, log = self.ctr, self.log
        s = self.sessions[op['s'] % len(self.sessions)]
        if s.dead:
            return
        if self.last_actor is not None and self.last_actor != s.idx:
            self.interleaved = True
        self.last_actor = s.idx if k != 'wdisturb' else 'disturber'
        if k == 'wdisturb':
            return self.web_disturb(seq, op, s)
        rec_all = s.thm['steps']
        snap = self.web_snapshot()
        if k in ('wapply', 'wdup', 'wstale', 'wself_cite'):
            if k == 'wapply':
                if len(s.steps) >= len(rec_all) or s.webdead:
                    return
                index, step, steps = len(s.steps), dict(rec_all[len(s.steps)]), s.steps
            elif k == 'wdup':
                # the same request again (double click / retry): stale index and the steps as they were
                if not s.steps:
                    return
                index, step, steps = len(s.steps) - 1, dict(s.steps[-1]), s.steps[:-1]
                ctr.inc('fault_duplicated_request')
            elif k == 'wstale':
                # a step inserted in the middle of the history
                if len(s.steps) < 2:
                    return
                index = op['a'] % len(s.steps)
                step, steps = dict(s.steps[index]), s.steps
                ctr.inc('fault_stale_index')
            else:
                # a step citing the very theorem being proved: only applicable under a wrong (later) theory
                index, steps = len(s.steps), s.steps
                step = {'method_name': 'apply_backward_step', 'goal_id': None, 'theorem': s.thm['name']}
            try:
                with op_alarm(120):
                    if step.get('goal_id') is None:
                        # the browser already shows the current proof: no extra request (which would
                        # re-establish the theory as a side effect)
                        proof = getattr(s, 'last_proof', None)
                        if proof is None:
                            r0 = web.call('init_saved_proof', self.payload(s, steps, index=index))
                            proof = r0['state']['proof']
                            snap = self.web_snapshot()
                        gaps = [l['id'] for l in proof if l['rule'] == 'sorry']
                        if not gaps:
                            return
                        step['goal_id'] = gaps[0]
                    res = web.call('apply_method', self.payload(s, steps, index=index, step=step))
            except OpTimeout:
                ctr.inc('op_timeout')
                s.dead = 'op_timeout'
                return
            except Exception as e:
                ctr.inc('web_handler_raised')
                log.add(seq, k, s.idx, 'handler-raised', type(e).__name__)
                return
            self.web_check_isolation(snap, k)
            kind = 'state' if 'state' in res else ('query' if 'query' in res else 'error')
            log.add(seq, k, s.idx, step.get('method_name'), index, kind)
            ctr.inc('web_apply_' + kind)
            if kind != 'state':
                if k == 'wapply':
                    s.webdead = kind
                return
            if k in ('wapply', 'wself_cite'):
                s.last_proof = res['state']['proof']
            if k == 'wapply':
                s.steps = s.steps + [step]
                self.web_judge(s, index + 1, step['method_name'])
            elif k == 'wself_cite':
                # the server accepted it: the client now has this step in its list
                s.steps = s.steps + [step]
                s.webdead = 'self-cite accepted'
                self.web_judge(s, index + 1, 'apply_backward_step')
            elif k == 'wdup':
                self.web_judge_payload(s, steps + [step], index + 1, step['method_name'])
            else:
                self.web_judge_payload(s, steps[:index] + [step] + steps[index:], index + 1, step['method_name'])
        elif k == 'winit':
            index = op['a'] % (len(s.steps) + 1)
            try:
                with op_alarm(120):
                    res = web.call('init_saved_proof', self.payload(s, index=index))
            except OpTimeout:
                ctr.inc('op_timeout')
                return
            except Exception as e:
                ctr.inc('web_handler_raised')
                return
            self.web_check_isolation(snap, k)
            log.add(seq, k, s.idx, index, 'error' in res)
            self.web_judge(s, index, s.steps[index - 1]['method_name'] if index else 'init')
        elif k == 'wsearch':
            index = len(s.steps)
            try:
                with op_alarm(120):
                    r0 = web.call('init_saved_proof', self.payload(s, index=index))
                    gaps = [l['id'] for l in r0['state']['proof'] if l['rule'] == 'sorry']
                    if not gaps:
                        return
                    res = web.call('search_method', self.payload(s, index=index, step={'goal_id': gaps[op['a'] % len(gaps)], 'fact_ids': []}))
            except OpTimeout:
                ctr.inc('op_timeout')
                return
            except Exception as e:
                ctr.inc('web_handler_raised')
                return
            self.web_check_isolation(snap, k)
            log.add(seq, k, s.idx, len(res.get('search_res', [])))

    def web_judge_payload(self, s, steps, index, lm):
        """judge the server's state for a payload that is not the client's current one"""
        saved = s.steps
        s.steps = steps
        try:
            self.web_judge(s, index, lm)
        finally:
            s.steps = saved

    def web_disturb(self, seq, op, s):
        from checks import c13_web as web
        kind, a = op['kind'], op['a']
        self.ctr.inc('fault_disturber_' + kind)
        ths = theories_for(self.cfg.get('tier', 'quick'))
        try:
            with op_alarm(120):
                if kind == 'check_modify_later':
                    # another tab checks an item further down the same file: leaves theory.thy at a later limit
                    web.call('check_modify', {'username': 'master', 'filename': s.thm['theory'], 'line_length': 80,
                                              'item': {'ty': 'def.ax', 'name': 'dist_c%d' % (a % 5), 'type': 'bool => bool'}})
                elif kind == 'check_modify_other':
                    web.call('check_modify', {'username': 'master', 'filename': ths[a % len(ths)], 'line_length': 80,
                                              'item': {'ty': 'def.ax', 'name': 'dist_c%d' % (a % 5), 'type': 'bool'}})
                elif kind == 'load_json_file':
                    web.call('load_json_file', {'username': 'master', 'filename': ths[a % len(ths)], 'line_length': 80, 'profile': False})
                elif kind == 'find_files':
                    web.call('find_files', {'username': 'master'})
                elif kind == 'gc':
                    gc.collect()
        except OpTimeout:
            self.ctr.inc('op_timeout')
        except Exception as e:
            self.ctr.inc('disturber_raised')
        self.log.add(seq, 'wdisturb', kind)

    def disturb(self, seq, op):
        from logic import basic, context
        from syntax import printer, parser
        from syntax.settings import settings, global_setting
        from kernel import theory
        kind, a = op['kind'], op['a']
        ctr = self.ctr
        ctr.inc('fault_disturber_' + kind)
        ths = theories_for(self.cfg.get('tier', 'quick'))
        try:
            if kind == 'load_other':
                basic.load_theory(ths[a % len(ths)])
            elif kind == 'load_same_other_limit':
                s = self.sessions[a % len(self.sessions)]
                lst = core.load_corpus([s.thm['theory']])
                other = lst[(a // 7) % len(lst)]
                basic.load_theory(s.thm['theory'], limit=('thm', other['name']))
            elif kind == 'print_settings':
                s = self.sessions[a % len(self.sessions)]
                if s.state is not None:
                    with global_setting(unicode=bool(a % 2), highlight=bool((a // 2) % 2), line_length=[None, 20, 40, 80][(a // 4) % 4]):
                        for it in core.all_items(s.state.prf)[:8]:
                            if it.th is not None:
                                printer.print_thm(it.th)
            elif kind == 'parse_other_context':
                context.set_context(ths[a % len(ths)], vars={'x': 'nat', 'A': 'bool', 'f': "'a => 'b"} if a % 2 else {'x': 'bool'})
                try:
                    parser.parse_term('x = x')
                except Exception:
                    pass
            elif kind == 'parse_proof_other':
                from server import server
                s = self.sessions[a % len(self.sessions)]
                if s.state is not None:
                    lines = json.loads(json.dumps(core.export_lines(s.state)))
                    context.set_context(s.thm['theory'], limit=('thm', s.thm['name']), vars=dict(s.thm['vars']))
                    try:
                        server.parse_proof(lines)       # writes into context.ctxt.vars in place
                    except Exception:
                        pass
            elif kind == 'extend':
                from server import items
                basic.load_theory(ths[a % len(ths)])
                it = items.parse_item({'ty': 'def.ax', 'name': 'disturb_c%d' % (a % 5), 'type': 'bool => bool'})
                if it.error is None:
                    theory.thy.unchecked_extend(it.get_extension())
            elif kind == 'gc':
                gc.collect()
            elif kind == 'fresh_theory':
                theory.thy = theory.EmptyTheory()
                context.ctxt = context.Context()
        except OpTimeout:
            raise
        except Exception as e:
            ctr.inc('disturber_raised')
        self.log.add(seq, 'disturb', kind)


def rng_pick(lst, n):
    return lst[n % len(lst)]


def execute(cfg, ops, env):
    log = EventLog()
    ctr = Counters()
    res = {'violation': None, 'known_hits': {}, 'nops': 0, 'state_keys': []}
    resume = env.get('resume')
    r = Runner(cfg, env, log, ctr)
    cont = None
    try:
        if resume:
            _resume_sessions(r, resume)
            start = resume['next_op']
            ctr.inc('fault_process_restart')
        else:
            r.open_sessions()
            start = 0
        for seq in range(start, len(ops)):
            ctr.inc('ops')
            ctr.inc('op_' + ops[seq]['op'])
            out = r.step(seq, ops[seq])
            if out == 'restart' and env.get('allow_restart', True):
                cont = _suspend_sessions(r, seq + 1)
                log.add(seq, 'restart')
                break
    except core.Violation as v:
        res['violation'] = {'oracle': v.oracle, 'detail': str(v.detail)[:1800], 'sig': v.sig, 'event_seq': log.n}
    except OpTimeout:
        ctr.inc('op_timeout')
    r.proxy.inject = None
    ctr['solver_checks'] = r.proxy.checks
    ctr['fault_solver_unknown'] = r.proxy.unknown
    res['known_hits'] = r.known_hits
    res['nops'] = ctr.get('ops', 0)
    res['digest'] = log.digest()
    res['counters'] = ctr
    res['events'] = log.events[:14]
    if r.used_copy or r.interleaved:
        res['state_keys'] = [log.digest()[:16]]
    if cont is not None and not res['violation']:
        res['continuation'] = cont
    return res


def _suspend_sessions(r, next_op):
    """what survives a process restart: only text handed to the client"""
    out = {'next_op': next_op, 'sessions': []}
    for s in r.sessions:
        ent = {'dead': s.dead, 'ptr': s.ptr, 'last_method': s.last_method, 'carried': sorted(s.carried)}
        if not s.dead:
            try:
                ent['lines'] = json.loads(json.dumps(core.export_lines(s.state)))
            except Exception:
                ent['dead'] = 'export-failed-at-restart'
        out['sessions'].append(ent)
    return out


def _resume_sessions(r, resume):
    from server import server
    from logic import context
    corpus_all = {}
    for i, sc in enumerate(r.cfg['sessions']):
        lst = corpus_all.setdefault(sc['theory'], core.load_corpus([sc['theory']]))
        if not lst:
            lst = core.load_corpus(['logic_base'])
        thm = lst[sc['k'] % len(lst)]
        s = Session(i, thm)
        ent = resume['sessions'][i]
        s.dead = ent['dead']
        s.ptr = ent['ptr']
        s.last_method = ent['last_method']
        s.carried = set(ent['carried'])
        r.sessions.append(s)
        if s.dead:
            continue
        s.establish()
        init = server.parse_init_state(thm['prop'])
        s.goal = init.prf.items[-1].th
        try:
            context.set_context(None, vars=dict(thm['vars']))
            s.state = server.parse_proof(ent['lines'])
        except Exception as e:
            # the text did not survive the restart: already judged by I5 before the restart
            s.dead = 'reimport-failed-after-restart'
            r.ctr.inc('reimport_failed_after_restart')
            continue
        r.log.add('resumed', i, core.state_digest(s.state))
        r.verdict(s, s.state, s.last_method or 'restart')


# ---------------------------------------------------------------- sensitivity variants

def _ps(owner, name, old, new):
    from holsim.seams import patch_source
    patch_source(owner, name, old, new)


def _v_copy_prevs():
    from kernel import proof
    _ps(proof.ProofItem, '__copy__', "res.subproof = copy.copy(self.subproof)", "res.subproof = self.subproof")


def _v_decr():
    from kernel import proof
    _ps(proof.ItemID, 'decr_id', "self.id[k-1] > id_remove.id[k-1]:", "self.id[k-1] >= id_remove.id[k-1]:")


def _v_incr():
    from kernel import proof
    _ps(proof.ItemID, 'incr_id_after', "if len(self.id) >= k and self.id[:k-1] == start.id[:k-1] and self.id[k-1] >= start.id[k-1]:",
        "if len(self.id) >= k and self.id[k-1] >= start.id[k-1]:")


def _v_find_goal():
    from server import method
    _ps(method.ProofState, 'find_goal', "if item.th is not None and item.th.can_prove(concl):",
        "if item.th is not None and item.th.prop == concl.prop:")


def _v_state_copy():
    from server import method
    _ps(method.ProofState, '__copy__', "res.prf = copy.copy(self.prf)", "res.prf = self.prf")


def _v_replace_id():
    from server import method
    _ps(method.ProofState, 'replace_id', "        self.remove_line(old_id)\n", "        pass\n")


def _v_export_prevs():
    import logic.basic  # noqa (import order)
    from syntax import printer
    _ps(printer, 'export_proof_item', "'prevs': [str(prev) for prev in item.prevs]}", "'prevs': [str(prev) for prev in item.prevs[:2]]}")


def _v_trivial():
    from server import method
    _ps(method.ProofState, 'apply_tactic', "if logic.trivial_macro().can_eval(item.th.prop):", "if True:")


VARIANTS = {
    'copy_shares_subproof': _v_copy_prevs,
    'decr_id_off_by_one': _v_decr,
    'incr_id_ignores_depth': _v_incr,
    'find_goal_ignores_hyps': _v_find_goal,
    'state_copy_shares_proof': _v_state_copy,
    'replace_id_keeps_line': _v_replace_id,
    'export_drops_prevs': _v_export_prevs,
    'apply_tactic_no_trivial_check': _v_trivial,
}
