"""C12 - loading a theory depends only on the library files, not on process history.

Simulated system: logic/basic.py (all of it), server/items.py parsing, kernel/theory.py and
the import machinery of every holpy module with an import-time load - real code.
Stubs: the disk and its modification-time clock (seam S5: logic.basic.open / logic.basic.os
are rebound to an in-memory SimFS right after `import logic.basic`).

Every run starts as a FRESH PROCESS with respect to holpy: the world pre-imports only
third-party modules, the run (a forked child) imports holpy itself, so "which holpy modules
were imported before the first load" is part of the simulated history.

Oracle: a small reference loader (the specification: transitive imports depth-first, then
the theory's own items before the limit; no cache, no timestamps) evaluated on the current
SimFS content after every LOAD."""
import io
import json
import os
import sys
import hashlib

from holsim.log import EventLog, Counters
from holsim.rng import SimRng

PROPERTY = 'C12'
HASHSEED_INDEPENDENT = False
REPO = os.environ.get('HOLPY_REPO', '/repo')

_VQ = ['cache_ignores_timestamp', 'limit_item_included', 'stale_dependants', 'timestamp_before_parse',
       'stale_imports_field']
TIERS = {
    'quick': dict(fork=True, worlds=16, runs=8, batch=1, det_runs=2, soft_timeout=240,
                  variants=['cache_ignores_timestamp', 'stale_dependants', 'timestamp_before_parse'],
                  variant_budget=20, min_tests=25, extra_workers=4),
    'thorough': dict(fork=True, worlds=64, runs=60, batch=1, det_runs=6, soft_timeout=600,
                     variants=_VQ + ['errors_not_skipped', 'toposort_ignores_user', 'metadata_partial_cache', 'lazy_import_inside_fresh_block'],
                     variant_budget=80, min_tests=40),
}

SMALL_LIB = ['logic_base', 'logic', 'nat', 'function', 'set', 'list', 'expr', 'gcl', 'class', 'topology', 'string']
MID_LIB = ['int', 'rat', 'hoare', 'sat']
BIG_LIB = ['real', 'limits', 'realset', 'verit', 'smt', 'iterate', 'floor']
IMPORT_MODS = ['data.integer', 'data.real', 'data.proplogic', 'prover.omega', 'prover.simplex',
               'prover.simplex_strict', 'prover.proofrec', 'prover.auto.auto', 'data.nat', 'data.set',
               'logic.logic', 'server.method', 'prover.z3wrapper', 'imperative.imp', 'data.expr', 'syntax.printer']
CHEAP_IMPORT_MODS = ['data.nat', 'data.set', 'logic.logic', 'server.method', 'prover.z3wrapper', 'data.expr',
                     'syntax.printer', 'imperative.imp']

_lib = {}


def warmup():
    # third-party modules only: holpy itself is imported inside each run
    import lark, z3, sympy, flask  # noqa
    try:
        import traceback2  # noqa
    except ImportError:
        pass
    d = os.path.join(REPO, 'library')
    for f in sorted(os.listdir(d)):
        if f.endswith('.json'):
            with open(os.path.join(d, f), encoding='utf-8') as fh:
                _lib[f[:-5]] = fh.read()


def describe():
    return {
        'rule': ('one evaluation = one process history, starting with the import of holpy itself: <=12 ops out of '
                 'IMPORT(module with an import-time load), LOAD(theory, limit, user), LOAD_CACHE, QUERY_INDEX, '
                 'METADATA, WRITE(file, mutation: drop / insert / alter item, change or rename a constant, change '
                 'imports, import cycle, restore), CLOCK_JUMP_BACK, and the faults EIO_ON_OPEN, TORN file, INTERRUPT '
                 '(item parser raises on its k-th call), HEAL; against the library snapshot plus a generated user '
                 'directory (3-6 small theories with an import DAG over copies of logic_base). After every LOAD the '
                 'canonical dump of theory.thy.data is compared with the reference loader on the current files. '
                 'distinct_nontrivial counts distinct event-log digests of runs with at least two LOADs separated '
                 'by a write, fault or import (i.e. where history could matter), plus single-LOAD fresh-process runs '
                 'counted by distinct (theory, limit).'),
        'real': ['logic/basic.py', 'server/items.py', 'kernel/theory.py', 'syntax/parser.py', 'data/*.py prover/*.py import-time loads'],
        'stubs': ['file system + mtime clock behind logic/basic.py (holsim SimFS)'],
        'logical_time': 'SimFS clock: one tick per write / fault / heal; jumps backwards are scheduled ops',
        'assumptions': ['the reference loader re-uses holpy\'s item parser (items.parse_item) and Theory.unchecked_extend',
                        'a rewrite that leaves the mtime unchanged is invisible to a timestamp-validated cache by construction and is not generated',
                        'files are not created or deleted after the first metadata scan (the statement speaks of modification between loads)'],
    }


# ---------------------------------------------------------------- generated user theories (pure data)

def gen_user_theories(rng):
    """3-6 small theories g0.. with an import DAG; later ones mention constants of earlier ones"""
    n = rng.randint(3, 6)
    ths = []
    vocab = {}   # theory index -> list of (name, kind) declared there
    for i in range(n):
        imports = ['logic_base']
        prev = list(range(i))
        rng.shuffle(prev)
        for j in prev[:rng.randint(0, min(2, i))]:
            imports.append('g%d' % j)
        if i > 0 and len(imports) == 1 and rng.chance(0.7):
            imports.append('g%d' % rng.randrange(i))
        if i > 0 and rng.chance(0.5) and 'g%d' % (i - 1) not in imports:
            imports.append('g%d' % (i - 1))        # chains: g0 <- g1 <- g2 ...
        if rng.chance(0.2):
            imports.remove('logic_base') if len(imports) > 1 else None
        visible = []
        seen = set()

        def collect(j):
            if j in seen:
                return
            seen.add(j)
            for imp in ths[j]['imports']:
                if imp.startswith('g'):
                    collect(int(imp[1:]))
            visible.extend(vocab[j])
        for imp in imports:
            if imp.startswith('g'):
                collect(int(imp[1:]))
        content = []
        mine = []
        T = 'T%d' % i
        content.append({'ty': 'type.ax', 'name': T, 'args': []})
        mine.append((T, 'type'))
        nitems = rng.randint(3, 7)
        for k in range(nitems):
            types = [t for t, kd in visible + mine if kd == 'type']
            preds = [(c, kd) for c, kd in visible + mine if kd.startswith('pred:')]
            r = rng.random()
            if r < 0.35 or not preds:
                ty = rng.pick(types)
                nm = 'p%d_%d' % (i, k)
                content.append({'ty': 'def.ax', 'name': nm, 'type': '%s => bool' % ty})
                mine.append((nm, 'pred:' + ty))
            elif r < 0.7:
                c, kd = rng.pick(preds)
                ty = kd[5:]
                c2, kd2 = rng.pick([p for p in preds if p[1] == kd])
                nm = 'ax%d_%d' % (i, k)
                content.append({'ty': 'thm.ax', 'name': nm, 'vars': {'x': ty, 'A': 'bool'},
                                'prop': rng.pick(['%s x --> %s x | A' % (c, c2), '%s x & A --> %s x' % (c, c2),
                                                  '(!y. %s y) --> %s x' % (c, c2)])})
            elif r < 0.9:
                c, kd = rng.pick(preds)
                ty = kd[5:]
                c2, kd2 = rng.pick([p for p in preds if p[1] == kd])
                nm = 'd%d_%d' % (i, k)
                content.append({'ty': 'def', 'name': nm, 'type': '%s => bool' % ty,
                                'prop': '%s x <--> %s x & %s x' % (nm, c, c2)})
                mine.append((nm, 'pred:' + ty))
            else:
                c, kd = rng.pick(preds)
                nm = 'th%d_%d' % (i, k)
                content.append({'ty': 'thm', 'name': nm, 'vars': {'x': kd[5:]}, 'prop': '%s x --> %s x' % (c, c)})
        vocab[i] = mine
        ths.append({'name': 'g%d' % i, 'imports': imports, 'description': 'generated', 'content': content})
    return ths


def gen(rng, tier):
    cfg = {'user': 'sim', 'theories': gen_user_theories(rng)}
    n_user = len(cfg['theories'])
    ops = []
    mode = rng.random()
    big_ok = tier == 'thorough'
    if mode < 0.22:
        # the empty history: one LOAD of a library theory with nothing before it
        pool = SMALL_LIB + MID_LIB + (BIG_LIB if (big_ok or rng.chance(0.35)) else [])
        ops.append({'op': 'load', 'user': 'master', 'name': rng.pick(pool), 'limit': rng.pick([None, None, 'item', 'start']),
                    'k': rng.randrange(1000)})
        cfg['single_load'] = True
        return cfg, ops
    faulty = rng.chance(0.7)
    cfg['faults'] = faulty
    heavy_import = rng.chance(0.12 if not big_ok else 0.3)
    n = rng.randint(3, 12)
    kinds = [('load_user', 30), ('load_lib', 10), ('write_user', 22), ('write_lib', 4), ('import', 6),
             ('load_cache', 3), ('query', 3), ('metadata', 3), ('clock_back', 3)]
    if faulty:
        kinds += [('torn', 6), ('eio', 5), ('interrupt', 5), ('heal', 6)]
    for _ in range(n):
        k = rng.weighted(kinds)
        if k == 'load_user':
            ops.append({'op': 'load', 'user': 'sim', 'name': 'g%d' % rng.randrange(n_user),
                        'limit': rng.pick([None, None, None, 'item', 'start', 'missing']), 'k': rng.randrange(1000)})
        elif k == 'load_lib':
            pool = SMALL_LIB + (MID_LIB if rng.chance(0.4) else []) + (BIG_LIB if heavy_import and big_ok else [])
            ops.append({'op': 'load', 'user': 'master', 'name': rng.pick(pool),
                        'limit': rng.pick([None, None, 'item', 'start', 'missing']), 'k': rng.randrange(1000)})
        elif k == 'write_user':
            ops.append({'op': 'write', 'user': 'sim', 'file': 'g%d' % rng.randrange(n_user),
                        'mut': rng.pick(['drop_item', 'insert_item', 'alter_item', 'change_type', 'rename_const',
                                         'add_import', 'drop_import', 'cycle', 'restore', 'touch']),
                        'k': rng.randrange(1000), 'seed': rng.randrange(1 << 30)})
        elif k == 'write_lib':
            ops.append({'op': 'write', 'user': 'master', 'file': rng.pick(['logic_base', 'function', 'class', 'expr', 'topology', 'set']),
                        'mut': rng.pick(['drop_item', 'alter_item', 'restore', 'touch', 'drop_import']),
                        'k': rng.randrange(1000), 'seed': rng.randrange(1 << 30)})
        elif k == 'import':
            ops.append({'op': 'import', 'mod': rng.pick(IMPORT_MODS if heavy_import else CHEAP_IMPORT_MODS)})
        elif k == 'load_cache':
            ops.append({'op': 'load_cache', 'user': 'sim', 'name': 'g%d' % rng.randrange(n_user)})
        elif k == 'query':
            ops.append({'op': 'query', 'user': 'sim', 'name': 'g%d' % rng.randrange(n_user), 'k': rng.randrange(1000)})
        elif k == 'metadata':
            ops.append({'op': 'metadata', 'user': rng.pick(['sim', 'master'])})
        elif k == 'clock_back':
            ops.append({'op': 'clock_back', 'by': rng.randint(1, 50)})
        elif k == 'torn':
            ops.append({'op': 'torn', 'user': 'sim', 'file': 'g%d' % rng.randrange(n_user), 'cut': rng.randrange(1000)})
        elif k == 'eio':
            ops.append({'op': 'eio', 'user': 'sim', 'file': 'g%d' % rng.randrange(n_user), 'nth': rng.randint(1, 3)})
        elif k == 'interrupt':
            ops.append({'op': 'interrupt', 'k': rng.randint(1, 25)})
        elif k == 'heal':
            ops.append({'op': 'heal'})
    # bias some histories to the shape where a cache can go stale unnoticed: load X, modify a file that X reaches
    # only INDIRECTLY (content or import list), load X again
    if rng.chance(0.6):
        imps = {t['name']: [i for i in t['imports'] if i.startswith('g')] for t in cfg['theories']}

        def reach(a):
            seen, todo = [], list(imps.get(a, []))
            while todo:
                x = todo.pop()
                if x not in seen:
                    seen.append(x)
                    todo.extend(imps.get(x, []))
            return seen
        cands = []
        for t in cfg['theories']:
            ind = [x for x in reach(t['name']) if x not in imps[t['name']]]
            if ind:
                cands.append((t['name'], sorted(ind)))
        if cands:
            X, ind = rng.pick(cands)
            pos = rng.randrange(len(ops) + 1)
            pat = [{'op': 'load', 'user': 'sim', 'name': X, 'limit': None, 'k': 0},
                   {'op': 'write', 'user': 'sim', 'file': rng.pick(ind),
                    'mut': rng.pick(['change_type', 'alter_item', 'drop_item', 'rename_const', 'add_import', 'drop_import', 'insert_item']),
                    'k': rng.randrange(1000), 'seed': rng.randrange(1 << 30)},
                   {'op': 'load', 'user': 'sim', 'name': X, 'limit': None, 'k': 0}]
            ops[pos:pos] = pat
    # faults without workload test nothing: end with healed loads
    if faulty:
        ops.append({'op': 'heal'})
    ops.append({'op': 'load', 'user': 'sim', 'name': 'g%d' % rng.randrange(n_user), 'limit': None, 'k': 0})
    ops.append({'op': 'load', 'user': 'sim', 'name': 'g%d' % (n_user - 1), 'limit': None, 'k': 0})
    return cfg, ops


def gen_for_variant(rng, tier, variant):
    """workload focus for the sensitivity self-test (the verdict oracles are unchanged)"""
    if variant == 'lazy_import_inside_fresh_block':
        cfg = {'user': 'sim', 'theories': gen_user_theories(rng), 'single_load': True}
        return cfg, [{'op': 'load', 'user': 'master', 'name': rng.pick(['limits', 'realset', 'verit']), 'limit': None, 'k': 0}]
    return gen(rng, tier)


def shrink_op(op):
    out = []
    if op['op'] == 'load' and op.get('limit') not in (None,):
        o = dict(op)
        o['limit'] = None
        out.append(o)
    if op['op'] == 'write' and op['mut'] != 'touch':
        o = dict(op)
        o['mut'] = 'touch'
        out.append(o)
    if op['op'] in ('torn', 'eio', 'interrupt'):
        out.append({'op': 'heal'})
    return out


# ---------------------------------------------------------------- SimFS (seam S5)

class SimFS:
    def __init__(self, ctr):
        self.files = {}     # normalised path -> {'data': str, 'mtime': float, 'good': str}
        self.clock = 1000.0
        self.eio = {}       # path -> opens until failure
        self.ctr = ctr
        self.opens = 0
        self.used_mtimes = {}

    def norm(self, p):
        return os.path.normpath(p)

    def tick(self, path):
        self.clock += 1.0
        t = self.clock
        used = self.used_mtimes.setdefault(path, set())
        while t in used:          # never re-use an mtime for the same file (mtime_stall is excluded)
            t += 0.25
        used.add(t)
        return t

    def put(self, path, data, good=None):
        path = self.norm(path)
        self.files[path] = {'data': data, 'mtime': self.tick(path), 'good': data if good is None else good}

    # --- what logic/basic.py sees
    def open(self, path, mode='r', encoding=None, **kw):
        path = self.norm(path)
        self.opens += 1
        if 'w' in mode or 'a' in mode or '+' in mode:
            raise PermissionError('SimFS: write through logic.basic not expected: %s' % path)
        if path in self.eio:
            self.eio[path] -= 1
            if self.eio[path] <= 0:
                del self.eio[path]
                self.ctr.inc('fault_fired_eio')
                raise OSError(5, 'Input/output error (injected)', path)
        if path not in self.files:
            raise FileNotFoundError(2, 'No such file or directory', path)
        return io.StringIO(self.files[path]['data'])

    def listdir(self, d):
        d = self.norm(d)
        out = [os.path.basename(p) for p in self.files if os.path.dirname(p) == d]
        if not out:
            raise FileNotFoundError(2, 'No such file or directory', d)
        return sorted(out)

    def getmtime(self, path):
        path = self.norm(path)
        if path not in self.files:
            raise FileNotFoundError(2, 'No such file or directory', path)
        return self.files[path]['mtime']


class _PathShim:
    def __init__(self, fs):
        self._fs = fs

    def getmtime(self, p):
        return self._fs.getmtime(p)

    def exists(self, p):
        return self._fs.norm(p) in self._fs.files

    def __getattr__(self, name):
        return getattr(os.path, name)


class _OsShim:
    def __init__(self, fs):
        self._fs = fs
        self.path = _PathShim(fs)

    def listdir(self, d):
        return self._fs.listdir(d)

    def __getattr__(self, name):
        return getattr(os, name)


# ---------------------------------------------------------------- reference loader (the specification)

class RefError(Exception):
    pass


def canon_dump(thy):
    """canonical, printer-independent dump of the parts of a theory the statement names"""
    from checks.c03 import read_type, read_term
    from kernel.type import Type
    from kernel.term import Term
    from kernel.thm import Thm

    def c(v):
        if isinstance(v, Type):
            return ('T', read_type(v))
        if isinstance(v, Term):
            return ('t', read_term(v))
        if isinstance(v, Thm):
            return ('thm', sorted(repr(read_term(h)) for h in v.hyps), read_term(v.prop))
        if isinstance(v, dict):
            return sorted((str(k), c(x)) for k, x in v.items())
        if isinstance(v, (list, tuple)):
            return [c(x) for x in v]
        if isinstance(v, (set, frozenset)):
            return sorted(repr(c(x)) for x in v)
        return repr(v)
    out = {}
    for key in ('type_sig', 'term_sig', 'theorems', 'attributes', 'overload'):
        d = thy.data.get(key, {})
        out[key] = {str(k): hashlib.sha256(repr(c(v)).encode()).hexdigest()[:16] for k, v in d.items()}
    return out


def diff_dumps(a, b):
    out = []
    for key in a:
        ka, kb = a[key], b.get(key, {})
        for k in sorted(set(ka) | set(kb)):
            if ka.get(k) != kb.get(k):
                out.append('%s[%s]: system %s / reference %s' % (
                    key, k, 'absent' if k not in ka else 'present', 'absent' if k not in kb else
                    ('present' if k not in ka else 'different')))
    return out


def reference_dump(fs, basic, user, name, limit):
    """The specification, executed on the *current* files: imports depth-first, then own items before the limit."""
    from kernel import theory
    from server import items

    def read(n):
        p = fs.norm(basic.user_file(n, user))
        if p not in fs.files:
            raise RefError('missing file %s' % n)
        try:
            return json.loads(fs.files[p]['data'])
        except ValueError as e:
            raise RefError('file %s is not valid JSON' % n)

    datas = {}

    def data(n):
        if n not in datas:
            datas[n] = read(n)
        return datas[n]

    def order_of(n, path=()):
        """transitive imports of n, depth-first, each once (n itself excluded)"""
        out = []
        seen = set()

        def dfs(m, path):
            if m in seen:
                return
            if m in path:
                raise RefError('import cycle through %s' % m)
            for imp in data(m)['imports']:
                dfs(imp, path + (m,))
            seen.add(m)
            out.append(m)
        for imp in data(n)['imports']:
            dfs(imp, (n,))
        if n in seen:
            raise RefError('import cycle through %s' % n)
        return out

    contrib = {}

    def contribution(n):
        """what theory n contributes: its items parsed under ITS OWN transitive imports (not under whatever
        else the importing theory happens to have loaded), items with errors skipped"""
        if n in contrib:
            return contrib[n]
        exts = []
        with theory.fresh_theory():
            for m in order_of(n):
                for e in contribution(m):
                    theory.thy.unchecked_extend(e)
            for it in data(n)['content']:
                obj = items.parse_item(it)
                if obj.error is None:
                    e = obj.get_extension()
                    theory.thy.unchecked_extend(e)
                    exts.append(e)
        contrib[n] = exts
        return exts

    top = data(name)
    try:
        own = []
        with theory.fresh_theory():
            # scratch theory: parsing happens here (Datatype.parse adds its type to the current theory even when
            # the item then turns out to have an error); only the extensions of error-free items count
            for m in order_of(name):
                for e in contribution(m):
                    theory.thy.unchecked_extend(e)
            if limit != 'start':
                found = False
                for it in top['content']:
                    if limit and it.get('ty') == limit[0] and it.get('name') == limit[1]:
                        found = True
                        break
                    obj = items.parse_item(it)
                    if obj.error is None:
                        e = obj.get_extension()
                        theory.thy.unchecked_extend(e)
                        own.append(e)
                if limit and not found:
                    raise RefError('limit %s not found' % (limit,))
        with theory.fresh_theory():
            for m in order_of(name):
                for e in contribution(m):
                    theory.thy.unchecked_extend(e)
            for e in own:
                theory.thy.unchecked_extend(e)
            return canon_dump(theory.thy)
    except RefError:
        raise
    except Exception as e:
        # the files describe something the theory machinery itself refuses (e.g. a constant declared twice after
        # an edit): an error is the expected outcome
        raise RefError('not loadable: %s: %s' % (type(e).__name__, str(e)[:120]))


# ---------------------------------------------------------------- execution

class Violation(Exception):
    def __init__(self, oracle, detail, sig=None):
        Exception.__init__(self, oracle)
        self.oracle, self.detail, self.sig = oracle, detail, sig or oracle


class Injected(Exception):
    pass


def _mutate(data, op, rng, original):
    """returns new JSON text for a theory file"""
    d = json.loads(data)
    mut = op['mut']
    content = d['content']
    k = op['k']
    if mut == 'touch':
        pass
    elif mut == 'restore':
        return original
    elif mut == 'drop_item' and content:
        del content[k % len(content)]
    elif mut == 'insert_item':
        nm = 'new%d' % (op['seed'] % 1000)
        content.insert(k % (len(content) + 1), {'ty': 'def.ax', 'name': nm, 'type': rng.pick(['bool', 'bool => bool', "'a => bool"])})
    elif mut == 'alter_item' and content:
        it = content[k % len(content)]
        if 'prop' in it and isinstance(it['prop'], str):
            it['prop'] = rng.pick(['(%s) & (%s)', '(%s) | (%s)']) % (it['prop'], it['prop']) if it['ty'] != 'def' else it['prop']
            if it['ty'] == 'def':
                it['attributes'] = ['hint_rewrite']
        elif 'type' in it:
            it['type'] = '(%s) => bool' % it['type']
    elif mut == 'change_type':
        cs = [it for it in content if it['ty'] == 'def.ax']
        if cs:
            it = cs[k % len(cs)]
            it['type'] = rng.pick(['bool', 'bool => bool', '(%s) => bool' % it['type']])
    elif mut == 'rename_const':
        cs = [it for it in content if it['ty'] in ('def.ax', 'type.ax')]
        if cs:
            cs[k % len(cs)]['name'] += 'r'
    elif mut == 'add_import':
        cand = ['g%d' % i for i in range(6)]
        me = d.get('name')
        idx = int(me[1:]) if me and me.startswith('g') and me[1:].isdigit() else None
        if idx:
            c = 'g%d' % (k % idx)
            if c not in d['imports']:
                d['imports'].append(c)
    elif mut == 'drop_import' and len(d['imports']) > 0:
        del d['imports'][k % len(d['imports'])]
    elif mut == 'cycle':
        me = d.get('name')
        if me and me.startswith('g'):
            d['imports'].append('g%d' % (k % 6))   # may point forward: a cycle or a missing file
    return json.dumps(d, ensure_ascii=False)


def execute(cfg, ops, env):
    log = EventLog()
    ctr = Counters()
    res = {'violation': None, 'known_hits': {}, 'nops': 0, 'state_keys': []}
    already = [m for m in sys.modules if m.split('.')[0] in ('kernel', 'logic', 'server', 'syntax', 'data', 'prover')]
    if already:
        res['violation'] = None
        res['harness_note'] = 'holpy already imported in the world: %s' % already[:3]
    fs = SimFS(ctr)
    user = cfg.get('user', 'sim')
    logic_dir = os.path.join(REPO, 'logic')
    for n, text in _lib.items():
        fs.put(os.path.join(logic_dir, '../library/' + n + '.json'), text)
    udir = os.path.join(logic_dir, '../users/' + user)
    fs.put(os.path.join(udir, 'logic_base.json'), _lib['logic_base'])
    for th in cfg['theories']:
        fs.put(os.path.join(udir, th['name'] + '.json'), json.dumps(th, ensure_ascii=False))

    if REPO not in sys.path:
        sys.path.insert(0, REPO)
    import logic.basic as basic
    basic.open = fs.open
    basic.os = _OsShim(fs)
    from kernel import theory
    from server import items

    real_parse = items.parse_item
    st = {'interrupt_in': None, 'fault_since_load': False, 'dirty': [], 'loads': 0, 'history': False}

    def parse_hook(data):
        if st['interrupt_in'] is not None:
            st['interrupt_in'] -= 1
            if st['interrupt_in'] <= 0:
                st['interrupt_in'] = None
                ctr.inc('fault_fired_interrupt')
                st['fault_fired'] = True
                raise Injected('load interrupted (injected)')
        return real_parse(data)
    items.parse_item = parse_hook

    variant = env.get('variant')
    single_keys = []
    try:
        for seq, op in enumerate(ops):
            ctr.inc('ops')
            k = op['op']
            ctr.inc('op_' + k)
            if k == 'load':
                u = op['user']
                name = op['name']
                path = fs.norm(basic.user_file(name, u))
                limit = op.get('limit')
                lim = None
                if limit == 'start':
                    lim = 'start'
                elif limit == 'missing':
                    lim = ('thm', 'no_such_item_%d' % op['k'])
                elif limit == 'item':
                    try:
                        d = json.loads(fs.files[path]['good'])
                        named = [it for it in d['content'] if 'name' in it and it['ty'] != 'header']
                        if named:
                            it = named[op['k'] % len(named)]
                            lim = (it['ty'], it['name'])
                    except (ValueError, KeyError):
                        lim = None
                st['fault_fired'] = False
                if sys.getrecursionlimit() > 20000:
                    # prover.proofrec sets 10**7 at import; an import cycle would then kill the process
                    # with a C stack overflow instead of raising (documented limit, DESIGN.md C12)
                    sys.setrecursionlimit(20000)
                    ctr.inc('probe_recursion_limit_clamped')
                eio_before = ctr.get('fault_fired_eio', 0)
                sys_err = None
                try:
                    basic.load_theory(name, limit=lim, username=u)
                    got = canon_dump(theory.thy)
                except Injected as e:
                    sys_err = e
                except RecursionError as e:
                    sys_err = e
                except Exception as e:
                    sys_err = e
                fired = st['fault_fired'] or ctr.get('fault_fired_eio', 0) > eio_before
                udirp = os.path.dirname(path)
                torn_now = [p for p, f in fs.files.items() if os.path.dirname(p) == udirp and f['data'] != f['good']]
                # the reference runs with the item parser un-hooked and restores theory.thy itself
                items.parse_item = real_parse
                try:
                    try:
                        want = reference_dump(fs, basic, u, name, lim)
                        ref_err = None
                    except RefError as e:
                        want, ref_err = None, e
                finally:
                    items.parse_item = parse_hook
                st['loads'] += 1
                log.add(seq, 'load', u, name, str(lim), type(sys_err).__name__ if sys_err else 'ok',
                        'ref-error' if ref_err else 'ref-ok', fired)
                shape = _shape(ops[:seq + 1], cfg)
                if fired:
                    # the load during which an injected fault fired may fail in any way
                    ctr.inc('loads_hit_by_fault')
                    if sys_err is None and ref_err is None and got != want:
                        raise Violation('wrong-data-after-fault',
                                        'LOAD(%s,%s,%s) returned normally during an injected fault but differs from the reference: %s' % (
                                            u, name, lim, diff_dumps(got, want)[:6]), 'wrong-data-after-fault', )
                    continue
                if torn_now and sys_err is not None:
                    # a half-written file in the directory is an active fault: failing is allowed
                    # (the loader scans the whole directory), returning a theory is judged below
                    ctr.inc('loads_failed_while_file_torn')
                    continue
                if ref_err is None and sys_err is not None and _dir_inconsistent(fs, udirp) and \
                        type(sys_err).__name__ in ('TheoryException', 'KeyError', 'RecursionError'):
                    # an import cycle / dangling import elsewhere in the directory: the loader checks the
                    # whole directory and may refuse; the statement does not forbid that
                    ctr.inc('errors_for_inconsistency_elsewhere')
                    continue
                if ref_err is not None:
                    if sys_err is None:
                        raise Violation('error-not-reported',
                                        'LOAD(%s,%s,%s) returned a theory although the files say: %s' % (u, name, lim, ref_err),
                                        'error-not-reported:' + _errkind(ref_err))
                    ctr.inc('errors_reported_as_expected')
                    continue
                if sys_err is not None:
                    raise Violation('load-raised',
                                    'LOAD(%s,%s,%s) raised %s: %s although the files are loadable (reference succeeds)' % (
                                        u, name, lim, type(sys_err).__name__, str(sys_err)[:300]),
                                    'load-raised:' + type(sys_err).__name__)
                if got != want:
                    raise Violation('dump-mismatch',
                                    'LOAD(%s,%s,%s) differs from the reference loader on the current files: %s' % (
                                        u, name, lim, diff_dumps(got, want)[:8]), 'dump-mismatch')
                ctr.inc('loads_equal_to_reference')
                if cfg.get('single_load'):
                    single_keys.append('single:%s:%s' % (name, lim))
            elif k == 'write':
                u = op['user']
                path = fs.norm(basic.user_file(op['file'], u))
                if path not in fs.files:
                    continue
                f = fs.files[path]
                orig = _lib[op['file']] if u == 'master' else None
                if orig is None:
                    th = [t for t in cfg['theories'] if t['name'] == op['file']]
                    orig = json.dumps(th[0], ensure_ascii=False) if th else f['good']
                new = _mutate(f['good'], op, SimRng('c12-mut', op['seed']), orig)
                fs.put(path, new)
                ctr.inc('fault_file_modified')
                st['history'] = True
                log.add(seq, 'write', u, op['file'], op['mut'])
            elif k == 'torn':
                path = fs.norm(basic.user_file(op['file'], op['user']))
                if path not in fs.files:
                    continue
                f = fs.files[path]
                good = f['good']
                cut = 1 + op['cut'] % max(1, len(good) - 2)
                fs.put(path, good[:cut], good=good)
                ctr.inc('fault_torn_write')
                st['history'] = True
                log.add(seq, 'torn', op['file'], cut)
            elif k == 'heal':
                for path, f in sorted(fs.files.items()):
                    if f['data'] != f['good']:
                        fs.put(path, f['good'])
                        ctr.inc('heals')
                fs.eio.clear()
                st['interrupt_in'] = None
                log.add(seq, 'heal')
            elif k == 'eio':
                path = fs.norm(basic.user_file(op['file'], op['user']))
                fs.eio[path] = op['nth']
                ctr.inc('fault_eio_armed')
                st['history'] = True
                log.add(seq, 'eio', op['file'], op['nth'])
            elif k == 'interrupt':
                st['interrupt_in'] = op['k']
                ctr.inc('fault_interrupt_armed')
                st['history'] = True
                log.add(seq, 'interrupt', op['k'])
            elif k == 'clock_back':
                fs.clock -= op['by']
                ctr.inc('fault_clock_jump_back')
                log.add(seq, 'clock_back', op['by'])
            elif k == 'import':
                st['history'] = True
                try:
                    __import__(op['mod'])
                    log.add(seq, 'import', op['mod'], 'ok')
                    ctr.inc('imports_done')
                except Injected:
                    log.add(seq, 'import', op['mod'], 'interrupted')
                except Exception as e:
                    # an import that fails is history too; it is not judged by C12
                    ctr.inc('probe_import_raised')
                    log.add(seq, 'import', op['mod'], type(e).__name__)
            elif k == 'load_cache':
                try:
                    basic.load_theory_cache(op['name'], op['user'])
                    log.add(seq, 'load_cache', op['name'], 'ok')
                except Exception as e:
                    log.add(seq, 'load_cache', op['name'], type(e).__name__)
            elif k == 'query':
                try:
                    r = basic.query_item_index(op['user'], op['name'], 'thm', 'ax%d_%d' % (op['k'] % 6, op['k'] % 5))
                    log.add(seq, 'query', op['name'], r is not None)
                except Exception as e:
                    log.add(seq, 'query', op['name'], type(e).__name__)
            elif k == 'metadata':
                try:
                    basic.load_metadata(op['user'])
                    log.add(seq, 'metadata', op['user'], 'ok')
                except Exception as e:
                    log.add(seq, 'metadata', op['user'], type(e).__name__)
    except Violation as v:
        res['violation'] = {'oracle': v.oracle, 'detail': str(v.detail)[:1800], 'sig': v.sig, 'event_seq': log.n,
                            'final_sig': v.sig + ' @ ' + _shape(ops, cfg)}
    finally:
        items.parse_item = real_parse
    ctr['file_opens'] = fs.opens
    res['nops'] = ctr.get('ops', 0)
    res['digest'] = log.digest()
    res['counters'] = ctr
    res['events'] = log.events[:14]
    if st['loads'] >= 2 and st['history']:
        res['state_keys'] = [log.digest()[:16]]
    elif single_keys:
        res['state_keys'] = single_keys
    return res


def _dir_inconsistent(fs, d):
    """some file of the directory has a dangling import or lies on an import cycle"""
    g = {}
    for p, f in fs.files.items():
        if os.path.dirname(p) == d and p.endswith('.json'):
            try:
                g[os.path.basename(p)[:-5]] = list(json.loads(f['data'])['imports'])
            except (ValueError, KeyError):
                return True
    for n, imps in g.items():
        if any(i not in g for i in imps):
            return True
    state = {}

    def dfs(n):
        if state.get(n) == 1:
            return True
        if state.get(n) == 2:
            return False
        state[n] = 1
        for i in g[n]:
            if dfs(i):
                return True
        state[n] = 2
        return False
    return any(dfs(n) for n in sorted(g))


def _errkind(e):
    s = str(e)
    for k in ('cycle', 'limit', 'missing', 'JSON'):
        if k in s:
            return k
    return 'other'


def _shape(ops, cfg):
    """history shape of an op list: kinds and relations, no concrete names (used for known-finding signatures)"""
    imports = {t['name']: [i for i in t['imports'] if i.startswith('g')] for t in cfg.get('theories', [])}

    def reach(a):
        seen = set()
        todo = [a]
        while todo:
            x = todo.pop()
            for i in imports.get(x, []):
                if i not in seen:
                    seen.add(i)
                    todo.append(i)
        return seen
    loads = [o for o in ops if o['op'] == 'load']
    last = loads[-1] if loads else None
    out = []
    for o in ops:
        k = o['op']
        if k == 'load':
            rel = 'X' if last and o['name'] == last['name'] and o['user'] == last['user'] else \
                ('imp(X)' if last and o['user'] == last['user'] and o['name'] in reach(last['name']) else 'other')
            out.append('load(%s%s)' % (rel, '' if o.get('limit') in (None,) else ',' + str(o.get('limit'))))
        elif k in ('write', 'torn', 'eio'):
            f = o['file']
            rel = 'X' if last and f == last['name'] and o['user'] == last['user'] else \
                ('imp(X)' if last and o['user'] == last['user'] and f in reach(last['name']) else 'other')
            out.append('%s(%s%s)' % (k, rel, ':' + o['mut'] if k == 'write' else ''))
        elif k == 'import':
            out.append('import(%s)' % o['mod'])
        else:
            out.append(k)
    return '; '.join(out)


# ---------------------------------------------------------------- sensitivity variants

def _b():
    if REPO not in sys.path:
        sys.path.insert(0, REPO)
    import logic.basic as basic
    return basic


def _v_cache_ts():
    from holsim.seams import patch_source
    patch_source(_b(), 'load_theory_cache', "if 'timestamp' in cache and timestamp == cache['timestamp']:",
                 "if 'timestamp' in cache:")


def _v_limit_incl():
    from holsim.seams import patch_source
    patch_source(_b(), 'load_theory', "            found_limit = True\n            break\n",
                 "            found_limit = True\n            if item.error is None:\n                theory.thy.unchecked_extend(item.get_extension())\n            break\n")


def _v_meta_partial():
    from holsim.seams import patch_source
    patch_source(_b(), 'load_metadata', "    new_cache = dict()\n", "    new_cache = theory_cache[username] = dict()\n")
    patch_source(_b(), 'load_metadata', "        del theory_cache[username]\n", "        pass\n")


def _v_errors():
    from holsim.seams import patch_source
    patch_source(_b(), 'load_theory', "        if item.error is None:\n            theory.thy.unchecked_extend(item.get_extension())\n\n    if limit and not found_limit:",
                 "        if item.error is None or item.ty == 'def.ax':\n            try:\n                theory.thy.unchecked_extend(item.get_extension())\n            except Exception:\n                pass\n\n    if limit and not found_limit:")


def _v_no_restore():
    """re-creates the fresh-process defect: imported theories are (re)loaded - lazy module imports included -
    inside the caller's fresh_theory block and theory.thy is not restored afterwards"""
    from holsim.seams import patch_source
    patch_source(_b(), 'load_theory_cache', "theory.thy = prev_thy", "pass")
    patch_source(_b(), 'load_theory_cache', "    for prev_name in depend_list:\n        load_theory_cache(prev_name, username)\n", "    pass\n")
    patch_source(_b(), 'load_theory_cache', "    import_stamps = [(prev_name, theory_cache[username][prev_name]['timestamp'])\n                     for prev_name in depend_list]\n", "    import_stamps = []\n")
    patch_source(_b(), 'load_theory_cache', "            prev_cache = theory_cache[username][prev_name]\n", "            prev_cache = load_theory_cache(prev_name, username)\n            import_stamps.append((prev_name, prev_cache['timestamp']))\n")


def _v_stale_dep():
    from holsim.seams import patch_source
    patch_source(_b(), 'load_theory_cache', "if all(os.path.getmtime(user_file(name, username)) == stamp\n               for name, stamp in cache['import_stamps']):", "if True:")


def _v_stale_imports():
    from holsim.seams import patch_source
    patch_source(_b(), 'get_imports', "if cache.get('imports_timestamp') != timestamp:", "if False:")


def _v_ts_before():
    from holsim.seams import patch_source
    patch_source(_b(), 'load_theory_cache', "    data = load_json_data(filename, username)\n    depend_list = get_import_order(",
                 "    cache['timestamp'] = timestamp\n    cache.setdefault('import_stamps', [])\n    cache.setdefault('content', [])\n"
                 "    data = load_json_data(filename, username)\n    depend_list = get_import_order(")


def _v_topo_user():
    from holsim.seams import patch_source
    patch_source(_b(), 'load_metadata', "check_topological_sort(username)", "check_topological_sort()")


VARIANTS = {
    'cache_ignores_timestamp': _v_cache_ts,
    'limit_item_included': _v_limit_incl,
    'metadata_partial_cache': _v_meta_partial,
    'errors_not_skipped': _v_errors,
    'lazy_import_inside_fresh_block': _v_no_restore,
    'stale_dependants': _v_stale_dep,
    'stale_imports_field': _v_stale_imports,
    'timestamp_before_parse': _v_ts_before,
    'toposort_ignores_user': _v_topo_user,
}
