"""C07 - printing then parsing a type, term, sequent or proof step is the identity,
independent of what was printed or parsed earlier.

Simulated system: syntax/printer.py, pprint.py, parser.py, infertype.py, operator.py,
settings.py, logic/context.py (real code).  What the simulator owns is the HISTORY: several
"documents" (theory + limit + context, incl. synthetic variants in which a constant is declared at
another type / is polymorphic / is missing) share one process and therefore one printer memo
(pprint.term_ast), one settings object, one current theory and context; ops switch documents,
print, round-trip, flip settings, and fail inside nested global_setting blocks.
Verdict: the round trip must hold wherever in the history it is performed."""
import copy
import hashlib
import json
import os

from holsim.log import EventLog, Counters
from holsim.rng import SimRng

PROPERTY = 'C07'
HASHSEED_INDEPENDENT = False
REPO = os.environ.get('HOLPY_REPO', '/repo')

QUICK_THEORIES = ['logic_base', 'logic', 'nat', 'function', 'set', 'list']
THOROUGH_THEORIES = QUICK_THEORIES + ['int', 'rat', 'expr', 'hoare', 'topology', 'real']

_VQ = ['memo_key_ignores_theory', 'no_bracket_right_assoc', 'variant_name_not_avoiding_free', 'settings_not_restored',
       'annotation_dropped']
TIERS = {
    'quick': dict(fork=True, worlds=16, runs=16, batch=1, det_runs=3, soft_timeout=300,
                  variants=_VQ[:4], variant_budget=40, min_tests=60, extra_workers=3),
    'thorough': dict(fork=True, worlds=64, runs=200, batch=1, det_runs=8, soft_timeout=600,
                     variants=_VQ, variant_budget=400, min_tests=120),
}

_items = {}


def warmup():
    from logic import basic, context  # noqa
    from syntax import parser, printer, pprint  # noqa
    import data.nat, data.set, data.function, data.list  # noqa
    from server import server, method  # noqa
    for th in (QUICK_THEORIES if os.environ.get('HOLSIM_TIER') == 'quick' else THOROUGH_THEORIES):
        try:
            basic.load_theory(th)
        except Exception:
            pass
        try:
            with open(os.path.join(REPO, 'library', th + '.json'), encoding='utf-8') as f:
                data = json.load(f)
            _items[th] = [it for it in data['content'] if it.get('ty') in ('thm', 'thm.ax') and 'prop' in it]
        except Exception:
            _items[th] = []
    pprint.term_ast.clear()


def describe():
    return {
        'rule': ('one evaluation = one history of <=60 ops over <=4 documents sharing one process: SWITCH(document), '
                 'PRINT / ROUNDTRIP of a term, type, sequent, instantiation or exported proof item under PRNG-chosen '
                 'settings (ASCII/Unicode, line_length in {None,20,40,80}, highlight flattened), MUTATE (type-preserving '
                 'swap of sub-terms, re-association, bound names clashing with free names), SET (persistent settings '
                 'flip as prover.proofrec / integral.proof do at import), FAIL_PRINT / FAIL_PARSE inside nested '
                 'global_setting blocks. Documents: library theories at PRNG-chosen limits plus synthetic variants '
                 '(a constant declared at another / a polymorphic type). distinct_nontrivial counts distinct '
                 '(document kind, settings, term digest) round trips performed after at least one other document '
                 'printed something (i.e. with a foreign memo present).'),
        'real': ['syntax/printer.py', 'syntax/pprint.py', 'syntax/parser.py', 'syntax/infertype.py', 'syntax/operator.py',
                 'syntax/settings.py', 'logic/context.py', 'util/name.py'],
        'stubs': ['none; documents are built from the real library files'],
        'assumptions': ['terms come from library statements, their sub-terms and type-preserving mutations of them, '
                        'plus generated numerals; every constant is used at an instance of its declared type',
                        'a round trip failure that persists after clearing the printer memo in a pristine context is an '
                        'input-level defect and is classified by the shape of the smallest failing sub-term'],
    }


# ---------------------------------------------------------------- generation

def gen(rng, tier):
    ths = QUICK_THEORIES if tier == 'quick' else THOROUGH_THEORIES
    ndoc = rng.randint(1, 4)
    docs = []
    for i in range(ndoc):
        th = rng.pick(ths)
        d = {'theory': th, 'limit_k': rng.randrange(100000), 'full': rng.chance(0.4)}
        if rng.chance(0.45) and i > 0:
            d['variant'] = rng.pick(['retype_poly', 'retype_mono', 'extra_overload'])
            d['base'] = rng.randrange(i)
        docs.append(d)
    if ndoc >= 2 and rng.chance(0.6):
        # two users' versions of one theory: the same constant declared at two types
        th = rng.pick(ths)
        a, b = rng.sample(range(ndoc), 2)
        kinds = rng.sample(['retype_poly', 'retype_mono', 'extra_overload'], 2)
        docs[a] = {'theory': th, 'limit_k': rng.randrange(100000), 'full': True, 'variant': kinds[0]}
        docs[b] = {'theory': th, 'limit_k': rng.randrange(100000), 'full': True, 'variant': kinds[1]}
    cfg = {'tier': tier, 'docs': docs, 'fault_free': rng.chance(0.25)}
    ops = []
    n = rng.randint(15, 60)
    for _ in range(n):
        k = rng.weighted([('switch', 10), ('print', 22), ('roundtrip', 34), ('mutate', 12), ('roundtrip_thm', 6),
                          ('roundtrip_type', 4), ('roundtrip_inst', 3), ('roundtrip_item', 4), ('foo', 8)] +
                         ([] if cfg['fault_free'] else [('set', 3), ('fail_print', 4), ('fail_parse', 3)]))
        op = {'op': k, 'a': rng.randrange(100000), 'b': rng.randrange(100000),
              'unicode': rng.chance(0.5), 'll': rng.pick([None, None, 20, 40, 80]), 'hl': rng.chance(0.25)}
        if k == 'switch':
            op['doc'] = rng.randrange(ndoc)
        ops.append(op)
    return cfg, ops


def shrink_op(op):
    out = []
    for k, v in (('unicode', False), ('ll', None), ('hl', False)):
        if op.get(k) not in (v,):
            o = dict(op)
            o[k] = v
            out.append(o)
    return out


# ---------------------------------------------------------------- helpers

class Violation(Exception):
    def __init__(self, oracle, detail, sig=None):
        Exception.__init__(self, oracle)
        self.oracle, self.detail, self.sig = oracle, detail, sig or oracle


def flatten(out):
    """printer output (str | list of lines | highlight nodes | lines of nodes) -> text"""
    if isinstance(out, str):
        return out
    if isinstance(out, list):
        if not out:
            return ''
        if isinstance(out[0], dict):
            return ''.join(n['text'] for n in out)
        return ' '.join(flatten(x) for x in out)
    return str(out)


def tkey(t):
    from checks.c03 import read_term
    from checks.c03_model import strip
    return hashlib.sha1(repr(strip(read_term(t))).encode()).hexdigest()[:14]


def exact_key(t):
    from checks.c03 import read_term
    return hashlib.sha1(repr(read_term(t)).encode()).hexdigest()[:14]


def is_numeral(t):
    """numerals are atoms for the workload: their internal structure (of_nat / bit0 / bit1 / one) is a
    representation, not something the statement's term generator re-combines"""
    try:
        return t.is_zero() or t.is_one() or (t.is_comb('of_nat', 1) and t.arg.is_binary()) or \
            ((t.is_comb('bit0', 1) or t.is_comb('bit1', 1)) and t.is_binary())
    except Exception:
        return False


def subterms_closed(t, acc, limit=60):
    """closed sub-terms (no loose bound variables) of t; numerals are not taken apart"""
    if len(acc) >= limit:
        return
    if not t.is_open():
        acc.append(t)
    if is_numeral(t):
        return
    if t.is_comb():
        subterms_closed(t.fun, acc, limit)
        subterms_closed(t.arg, acc, limit)
    elif t.is_abs():
        subterms_closed(t.body, acc, limit)


class Doc:
    def __init__(self, idx, spec, runner):
        self.idx = idx
        self.spec = spec
        self.pool = []        # [(term, vars dict)]
        self.vars = {}
        self.printed = 0
        self.extra = []       # synthetic extensions (name, type string)
        self.limit = None
        self.theory = spec['theory']

    def kind(self):
        return self.spec.get('variant', 'library')


class Runner:
    def __init__(self, cfg, env, log, ctr):
        self.cfg, self.env, self.log, self.ctr = cfg, env, log, ctr
        self.known = set(env.get('known') or [])
        self.known_hits = {}
        self.docs = []
        self.cur = None
        self.keys = set()
        self.foreign_prints = 0

    # ----- documents
    def open_docs(self):
        for i, spec in enumerate(self.cfg['docs']):
            d = Doc(i, spec, self)
            its = _items.get(spec['theory']) or _items.get('logic_base') or []
            if its and not spec.get('full'):
                lim = its[spec['limit_k'] % len(its)]
                d.limit = (lim['ty'], lim['name'])
                d.items = its[:spec['limit_k'] % len(its)]
            else:
                d.items = list(its)
            self.docs.append(d)
        self.switch(self.docs[0])

    def switch(self, d):
        from logic import basic, context
        from kernel import theory
        from kernel.type import TFun, TVar, NatType, BoolType
        basic.load_theory(d.theory, limit=d.limit)
        v = d.spec.get('variant')
        if v:
            # what another user's theory / an edited definition looks like: same name, other declared type
            thy = theory.thy
            if v == 'retype_poly':
                thy.add_term_sig('foo', TFun(TVar('a'), NatType if thy.has_type_sig('nat') else BoolType))
            elif v == 'retype_mono':
                T = NatType if thy.has_type_sig('nat') else BoolType
                thy.add_term_sig('foo', TFun(T, T))
            elif v == 'extra_overload':
                T = NatType if thy.has_type_sig('nat') else BoolType
                thy.add_term_sig('foo', TFun(TVar('a'), TVar('a'), T))
        context.ctxt = context.Context(vars=dict(d.vars))
        self.cur = d

    def ensure_ctx(self, vars_, term=None):
        """a context that declares the free variables of the term at hand (and, when the term is given, only
        those: a context declaring further variables can clash with the fresh bound names the printer picks -
        see known finding roundtrip/term/input/abs)"""
        from logic import context
        vs = dict(vars_)
        if term is not None:
            names = set(v.name for v in term.get_vars())
            vs = {k: v for k, v in vs.items() if k in names}
        context.ctxt = context.Context(vars=vs)

    def pool_term(self, d, a, b):
        """a term of document d with the variable declarations it needs: (term, vars)"""
        from syntax import parser
        from logic import context
        if d.pool and a % 3 == 0:
            return d.pool[b % len(d.pool)]
        if not d.items:
            return None
        it = d.items[a % len(d.items)]
        try:
            with context.fresh_context(vars=it.get('vars', {})):
                t = parser.parse_term(it['prop'])
                vs = {k: v for k, v in context.ctxt.vars.items()}
        except Exception:
            self.ctr.inc('library_item_unparsable_here')
            return None
        subs = []
        subterms_closed(t, subs, 40)
        t2 = subs[b % len(subs)] if (b % 4 and subs) else t
        ent = (t2, vs)
        if len(d.pool) < 40:
            d.pool.append(ent)
        return ent

    # ----- printing under settings
    def show(self, t, op, what='term'):
        from syntax import printer
        from syntax.settings import global_setting
        kw = {'unicode': bool(op.get('unicode')), 'highlight': bool(op.get('hl')), 'line_length': op.get('ll')}
        with global_setting(**kw):
            if what == 'term':
                out = printer.print_term(t)
            elif what == 'thm':
                out = printer.print_thm(t)
            elif what == 'type':
                out = printer.print_type(t)
            else:
                raise ValueError(what)
        return flatten(out)

    def report(self, sig, oracle, detail):
        if sig in self.known:
            self.known_hits[sig] = self.known_hits.get(sig, 0) + 1
            return
        if self.env.get('collect') is not None:
            self.env['collect'].setdefault(sig, detail[:300])
            return
        raise Violation(oracle, detail, sig)

    def classify(self, t, vs, op, attempt=None):
        """history-dependent or input-level?  Re-do the same round trip with an empty printer memo."""
        from syntax import parser, pprint
        saved = dict(pprint.term_ast)
        pprint.term_ast.clear()
        try:
            self.ensure_ctx(vs)
            try:
                if attempt is not None:
                    ok = bool(attempt())
                else:
                    text = self.show(t, op)
                    t2 = parser.parse_term(text)
                    ok = (t2 == t)
            except Exception:
                ok = False
        finally:
            pprint.term_ast.clear()
            pprint.term_ast.update(saved)
        if ok:
            return 'history'
        return 'input'

    def min_shape(self, t, vs, op):
        """head shape of the smallest closed sub-term that still fails with an empty memo"""
        from syntax import parser, pprint
        subs = []
        subterms_closed(t, subs, 200)
        subs.sort(key=lambda x: x.size())
        saved = dict(pprint.term_ast)
        try:
            for s in subs:
                pprint.term_ast.clear()
                try:
                    ok = parser.parse_term(self.show(s, op)) == s
                except Exception:
                    ok = False
                if not ok:
                    return shape_of(s)
        finally:
            pprint.term_ast.clear()
            pprint.term_ast.update(saved)
        return shape_of(t)

    # ----- ops
    def step(self, seq, op):
        from syntax import parser, printer, pprint
        from syntax.settings import settings, global_setting
        from logic import context
        from kernel import theory
        k = op['op']
        ctr, log = self.ctr, self.log
        d = self.cur
        if k == 'switch':
            self.switch(self.docs[op['doc'] % len(self.docs)])
            log.add(seq, 'switch', self.cur.idx, self.cur.kind())
            return
        if k in ('print', 'roundtrip', 'mutate', 'roundtrip_thm', 'roundtrip_inst', 'roundtrip_type'):
            ent = self.pool_term(d, op['a'], op['b'])
            if ent is None:
                return
            t, vs = ent
        if k == 'print':
            self.ensure_ctx(vs)
            before = exact_key(t)
            try:
                self.show(t, op)
            except Exception as e:
                ctr.inc('print_raised')
                return
            if exact_key(t) != before:
                raise Violation('print-mutates', 'printing changed its argument', 'print-mutates-argument')
            d.printed += 1
            log.add(seq, 'print', d.idx, tkey(t), op['unicode'], op['ll'], op['hl'])
        elif k == 'roundtrip':
            self.roundtrip(seq, d, t, vs, op)
        elif k == 'foo':
            # the constant the synthetic variants declare differently
            vd = [x for x in self.docs if x.spec.get('variant')]
            if not vd:
                return
            d = vd[op['b'] % len(vd)]
            if d is not self.cur:
                self.switch(d)
            self.foo(seq, d, op)
        elif k == 'mutate':
            t2 = mutate(t, SimRng('c07-mut', op['a'], op['b']))
            if t2 is not None and len(d.pool) < 60:
                try:
                    t2.checked_get_type()
                except Exception:
                    ctr.inc('mutation_ill_typed_dropped')
                    return
                vs = dict(vs)
                for v in t2.get_vars():
                    if v.name not in vs:
                        vs[v.name] = v.T
                d.pool.append((t2, vs))
                ctr.inc('mutated_terms')
                self.roundtrip(seq, d, t2, vs, op)
        elif k == 'roundtrip_thm':
            from kernel.thm import Thm
            self.ensure_ctx(vs)
            T = None
            try:
                T = t.checked_get_type()
            except Exception:
                return
            from kernel.type import BoolType
            if T != BoolType:
                return
            hyps = []
            for j in range(op['b'] % 4):
                if not d.pool:
                    break
                h, hv = d.pool[(op['b'] // 4 + j * 7) % len(d.pool)]
                try:
                    if h.checked_get_type() == BoolType and h not in hyps and h != t and \
                            all(str(hv[n]) == str(vs[n]) for n in set(hv) & set(vs)):
                        hyps.append(h)
                        vs = dict(hv, **vs)
                except Exception:
                    pass
            self.ensure_ctx(vs)
            th = Thm(t, *hyps)

            def attempt():
                th2 = parser.parse_thm(self.show(th, op, 'thm'))
                return th2.prop == th.prop and set(th2.hyps) == set(th.hyps)
            try:
                ok = attempt()
                exc = None
            except Exception as e:
                ok, exc = False, e
            if not ok:
                self.fail(seq, d, t, vs, op, 'thm', exc, attempt=attempt)
                return
            ctr.inc('roundtrips_ok')
            log.add(seq, 'roundtrip_thm', d.idx, tkey(t), len(hyps))
        elif k == 'roundtrip_type':
            self.ensure_ctx(vs)
            try:
                T = t.checked_get_type()
            except Exception:
                return
            try:
                text = self.show(T, op, 'type')
                T2 = parser.parse_type(text)
            except Exception as e:
                self.report('roundtrip/type/raised/%s' % type(e).__name__, 'roundtrip', 'type %s does not round-trip: %r' % (T, e))
                return
            if T2 != T:
                self.report('roundtrip/type/differs', 'roundtrip', 'type %s printed as %r parses as %s' % (T, text, T2))
                return
            ctr.inc('roundtrips_ok')
            log.add(seq, 'roundtrip_type', d.idx, repr(T))
        elif k == 'roundtrip_inst':
            from kernel.term import Inst
            self.ensure_ctx(vs)
            inst = Inst()
            inst['P'] = t
            if d.pool:
                h, hv = d.pool[op['b'] % len(d.pool)]
                if all(hv.get(n) == vs.get(n) for n in set(hv) & set(vs)):
                    inst['Q'] = h
                    vs = dict(hv, **vs)
                    self.ensure_ctx(vs)
            def attempt():
                with global_setting(unicode=bool(op.get('unicode')), highlight=False, line_length=None):
                    text = flatten(printer.print_str_args('apply_theorem_for', ('thm_name', inst), None))
                name, inst2 = parser.parse_args(__import__('typing').Tuple[str, Inst], text)
                return dict(inst2) == dict(inst)
            try:
                ok, exc = attempt(), None
            except Exception as e:
                ok, exc = False, e
            if not ok:
                self.fail(seq, d, t, vs, op, 'inst', exc, attempt=attempt)
                return
            ctr.inc('roundtrips_ok')
            log.add(seq, 'roundtrip_inst', d.idx, tkey(t))
        elif k == 'roundtrip_item':
            self.roundtrip_item(seq, d, op)
        elif k == 'set':
            # persistent flip, as `settings.unicode = True` at import of prover.proofrec / integral.proof
            which = 0
            settings.unicode = True if op['a'] % 3 else False
            ctr.inc('fault_persistent_settings_flip')
            log.add(seq, 'set', which)
        elif k in ('fail_print', 'fail_parse'):
            from kernel.term import Bound, Var, Comb
            before = (settings.unicode, settings.highlight, settings.line_length, id(theory.thy), id(context.ctxt))
            try:
                with global_setting(unicode=not settings.unicode):
                    with global_setting(highlight=True, line_length=30):
                        if k == 'fail_print':
                            printer.print_term(Comb(Var('f', __import__('kernel.type', fromlist=['TVar']).TVar('a')), Bound(op['a'] % 3)))
                        else:
                            parser.parse_term('%%x. ( + )) %d' % op['a'])
                ctr.inc('fail_op_did_not_fail')
            except Exception:
                ctr.inc('fault_exception_inside_global_setting')
            after = (settings.unicode, settings.highlight, settings.line_length, id(theory.thy), id(context.ctxt))
            if before != after:
                self.report('state-not-restored/%s' % k, 'state-not-restored',
                            'after a failing %s inside nested global_setting blocks the settings / theory / context are %s, were %s' % (
                                k, after[:3], before[:3]))
            log.add(seq, k)

    def roundtrip(self, seq, d, t, vs, op):
        from syntax import parser
        self.ensure_ctx(vs, t)
        vs = {k: v for k, v in vs.items() if k in set(x.name for x in t.get_vars())}
        before = exact_key(t)
        try:
            text = self.show(t, op)
            t2 = parser.parse_term(text)
        except Exception as e:
            self.fail(seq, d, t, vs, op, 'term', e)
            return
        if exact_key(t) != before:
            raise Violation('print-mutates', 'printing changed its argument', 'print-mutates-argument')
        if t2 != t:
            self.fail(seq, d, t, vs, op, 'term', None, text)
            return
        self.ctr.inc('roundtrips_ok')
        d.printed += 1
        foreign = sum(x.printed for x in self.docs if x is not d)
        if foreign:
            self.keys.add('%s|%s|%s|%s|%s' % (d.kind(), op['unicode'], op['ll'], op['hl'], tkey(t)))
        self.log.add(seq, 'roundtrip', d.idx, tkey(t), op['unicode'], op['ll'], op['hl'])

    def fail(self, seq, d, t, vs, op, what, exc, text=None, attempt=None):
        cls = self.classify(t, vs, op, attempt) if what in ('term', 'thm', 'inst') else 'input'
        if cls == 'history':
            self.ctr.inc('probe_memo_hit_from_other_document')
            sig = 'roundtrip/%s/history' % what
            shape = ''
        else:
            shape = self.min_shape(t, vs, op)
            if attempt is not None and self.classify(t, vs, op) == 'history':
                shape = 'wrapper-only'      # the bare term round-trips; the enclosing form does not
            # the same input-level defect shows up whether the term is printed alone, inside a sequent or inside an
            # instantiation: one signature per shape; only failures of the enclosing form itself name the form
            sig = 'roundtrip/%s/input/%s' % (what if shape == 'wrapper-only' else 'term', shape)
        self.switch(d)
        self.report(sig, 'roundtrip', 'document %d (%s %s limit %s): %s %s does not round-trip (%s; settings unicode=%s line_length=%s highlight=%s; %s)' % (
            d.idx, d.kind(), d.theory, d.limit, what, safe_str(t), 'raises %r' % (exc,) if exc else 'parses to a different term',
            op.get('unicode'), op.get('ll'), op.get('hl'),
            'holds with an empty printer memo: depends on what was printed before' if cls == 'history' else 'also with an empty memo; smallest failing sub-term shape ' + shape))

    def foo(self, seq, d, op):
        """`foo 0`-like terms over the constant that the synthetic variants declare at different types"""
        from kernel import theory
        from kernel.term import Const, Var, Comb
        from kernel.type import TFun, NatType, BoolType
        thy = theory.thy
        if not thy.has_term_sig('foo'):
            return
        T = NatType if thy.has_type_sig('nat') else BoolType
        declared = thy.get_term_sig('foo')
        from kernel.term import Nat
        try:
            arg = Nat(op['a'] % 2) if T == NatType else Var('b', BoolType)
        except Exception:
            arg = Var('n', T)
        argTs, resT = declared.strip_type()
        ft = TFun(*([T] * (len(argTs) + 1)))
        t = Const('foo', ft)
        for _ in argTs:
            t = Comb(t, arg)
        try:
            thy.check_term(t)
            t.checked_get_type()
        except Exception:
            self.ctr.inc('foo_term_not_wellformed_here')
            return
        vs = {'b': 'bool', 'n': 'nat'} if T == NatType else {'b': 'bool'}
        self.ctr.inc('foo_roundtrips')
        self.roundtrip(seq, d, t, vs, op)

    def roundtrip_item(self, seq, d, op):
        """exported proof step -> parse_proof_rule"""
        from syntax import printer, parser
        from kernel.proof import ProofItem
        from kernel.thm import Thm
        if not d.pool:
            return
        t, vs = d.pool[op['a'] % len(d.pool)]
        try:
            from kernel.type import BoolType
            if t.checked_get_type() != BoolType:
                return
        except Exception:
            return
        self.ensure_ctx(vs)
        rule, args = [('assume', t), ('sorry', None), ('theorem', 'conjI'), ('rewrite_goal', ('conjI', t))][op['b'] % 4]
        item = ProofItem((op['b'] % 5, op['a'] % 3), rule, args=args, prevs=[(0,)] if rule == 'rewrite_goal' else [],
                         th=Thm(t, t) if rule == 'assume' else Thm(t))
        try:
            with __import__('syntax.settings', fromlist=['global_setting']).global_setting(unicode=bool(op.get('unicode'))):
                line = printer.export_proof_item(item)[0]
            line = json.loads(json.dumps(line))
            item2 = parser.parse_proof_rule(line)
        except Exception as e:
            self.fail(seq, d, t, vs, op, 'term', e)
            return
        if str(item2.id) != str(item.id) or item2.rule != item.rule or item2.th != item.th or \
                [str(p) for p in item2.prevs] != [str(p) for p in item.prevs] or \
                (rule in ('assume',) and item2.args != item.args) or (rule == 'rewrite_goal' and tuple(item2.args) != tuple(item.args)):
            self.report('roundtrip/item/differs/%s' % rule, 'roundtrip', 'exported proof item %s re-imports as %s' % (item, item2))
            return
        self.ctr.inc('roundtrips_ok')
        self.log.add(seq, 'roundtrip_item', d.idx, rule, tkey(t))


def safe_str(t):
    from checks.c03 import read_term
    try:
        return repr(read_term(t))[:400]
    except Exception:
        return '?'


def shape_of(t):
    def head(x):
        h = x
        n = 0
        while h.is_comb():
            h = h.fun
            n += 1
        if h.is_const():
            return h.name
        if h.is_abs():
            return 'abs'
        if h.is_var():
            return 'var'
        return 'other'
    if t.is_comb():
        f, args = t.strip_comb()
        if head(t) in ('bit0', 'bit1', 'of_nat'):
            return 'numeral-internals'       # one family: a numeral constructor applied to a non-numeral
        return '%s(%s)' % (head(t), ','.join(head(a) for a in args))
    return head(t)


def mutate(t, rng):
    """type-preserving mutation: swap two closed sub-terms of the same type, re-associate an operator,
    or rename a bound variable to clash with a free name"""
    from kernel.term import Comb, Abs, Var
    k = rng.randrange(4)
    if k == 3:
        # a binder-like constant applied to something that is not a lambda: replace one closed abstraction
        # by a free variable of its type (collect P, all P, ...)
        lams = []

        def find(x, path):
            if x.is_abs() and not x.is_open():
                lams.append((path, x))
            if x.is_comb():
                find(x.fun, path + (0,))
                find(x.arg, path + (1,))
            elif x.is_abs():
                find(x.body, path + (2,))
        find(t, ())
        if not lams:
            return None
        # prefer abstractions that are the argument of a constant (collect, all, exists, The, ...)
        def parent_is_const_app(path):
            x = t
            for i, step in enumerate(path[:-1]):
                x = x.fun if step == 0 else (x.arg if step == 1 else x.body)
            return bool(path) and path[-1] == 1 and x.is_comb() and x.fun.is_const()
        pref = [e for e in lams if parent_is_const_app(e[0])]
        path, lam = rng.pick(pref) if pref and rng.chance(0.8) else rng.pick(lams)
        try:
            T = lam.get_type()
        except Exception:
            return None
        used = set(v.name for v in t.get_vars())
        nm = [n for n in ('PP', 'QQ', 'RR') if n not in used][0]

        def put0(x, path, repl):
            if not path:
                return repl
            if path[0] == 0:
                return Comb(put0(x.fun, path[1:], repl), x.arg)
            if path[0] == 1:
                return Comb(x.fun, put0(x.arg, path[1:], repl))
            return Abs(x.var_name, x.var_T, put0(x.body, path[1:], repl))
        return put0(t, path, Var(nm, T))
    if k == 2:
        frees = sorted(v.name for v in t.get_vars())

        def ren(x):
            if x.is_abs():
                nm = rng.pick(frees) if frees and rng.chance(0.7) else x.var_name
                return Abs(nm, x.var_T, ren(x.body))
            if x.is_comb():
                return Comb(ren(x.fun), ren(x.arg))
            return x
        r = ren(t)
        return r
    # positions of closed sub-terms with types
    occ = []

    def walk(x, path):
        if len(occ) > 80:
            return
        if not x.is_open():
            try:
                occ.append((path, x, x.get_type()))
            except Exception:
                pass
        if is_numeral(x):
            return
        if x.is_comb():
            walk(x.fun, path + (0,))
            walk(x.arg, path + (1,))
        elif x.is_abs():
            walk(x.body, path + (2,))
    walk(t, ())
    if len(occ) < 2:
        return None
    for _ in range(12):
        (p1, x1, T1) = rng.pick(occ)
        if x1.is_const() and x1.name in ('bit0', 'bit1', 'of_nat'):
            continue
        cands = [(p, x, T) for (p, x, T) in occ if T == T1 and p != p1 and p[:len(p1)] != p1 and p1[:len(p)] != p and x != x1
                 and not (x.is_const() and x.name in ('bit0', 'bit1', 'of_nat'))]
        if not cands:
            continue
        (p2, x2, T2) = rng.pick(cands)

        def put(x, path, repl):
            if not path:
                return repl
            if path[0] == 0:
                return Comb(put(x.fun, path[1:], repl), x.arg)
            if path[0] == 1:
                return Comb(x.fun, put(x.arg, path[1:], repl))
            return Abs(x.var_name, x.var_T, put(x.body, path[1:], repl))
        if k == 0:
            return put(put(t, p1, x2), p2, x1)
        return put(t, p1, x2)
    return None


def execute(cfg, ops, env):
    from syntax import pprint
    from syntax.settings import settings
    log = EventLog()
    ctr = Counters()
    res = {'violation': None, 'known_hits': {}, 'nops': 0, 'state_keys': []}
    r = Runner(cfg, env, log, ctr)
    try:
        r.open_docs()
        for seq, op in enumerate(ops):
            ctr.inc('ops')
            ctr.inc('op_' + op['op'])
            r.step(seq, op)
    except Violation as v:
        res['violation'] = {'oracle': v.oracle, 'detail': str(v.detail)[:1800], 'sig': v.sig, 'event_seq': log.n}
    ctr['printer_memo_entries'] = len(pprint.term_ast)
    res['known_hits'] = r.known_hits
    res['nops'] = ctr.get('ops', 0)
    res['digest'] = log.digest()
    res['counters'] = ctr
    res['events'] = log.events[:14]
    res['state_keys'] = sorted(hashlib.sha1(k.encode()).hexdigest()[:14] for k in r.keys)[:300]
    return res


# ---------------------------------------------------------------- sensitivity variants

def _ps(owner, name, old, new):
    from holsim.seams import patch_source
    patch_source(owner, name, old, new)


def _v_memo_unicode():
    """re-creates the defect repaired by fix fe97827: the memo key ignores the theory"""
    from syntax import pprint
    _ps(pprint, 'get_ast_term', "key = key + [(c.name, term_sig.get(c.name)) for c in t.get_consts()]", "pass")


def _v_bracket():
    from syntax import pprint
    _ps(pprint, 'get_ast_term', "op_data.assoc == operator.LEFT", "op_data.assoc != operator.LEFT")


def _v_variant():
    from util import name
    _ps(name, 'get_variant_name', "    if nm not in prevs:\n        return nm\n", "    if nm not in prevs or len(prevs) > 1:\n        return nm\n")


def _v_settings():
    import logic.basic  # noqa (import order)
    from syntax import settings as st
    import contextlib

    @contextlib.contextmanager
    def global_setting(**kwargs):
        old = copy.copy(st.settings)
        st.settings.__dict__.update(kwargs)
        yield None
        st.settings.__dict__.update(old.__dict__)
    if getattr(st.global_setting, '_holsim', False):
        return
    global_setting._holsim = True
    st.global_setting = global_setting
    import syntax.printer, syntax.pprint, server.method, server.items
    for m in (syntax.printer, syntax.pprint, server.method, server.items):
        if hasattr(m, 'global_setting'):
            m.global_setting = global_setting
    import checks.c07  # noqa


def _v_annot():
    from syntax import infertype
    _ps(infertype, 'infer_printed_type', "if to_replace is None or t.T.size() < to_replaceT.size():", "if to_replace is None or t.T.size() > to_replaceT.size():")


VARIANTS = {
    'memo_key_ignores_theory': _v_memo_unicode,
    'no_bracket_right_assoc': _v_bracket,
    'variant_name_not_avoiding_free': _v_variant,
    'settings_not_restored': _v_settings,
    'annotation_dropped': _v_annot,
}
