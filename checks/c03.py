"""C03 - term equality is alpha-equivalence; substitution is capture-free.

Simulated system: kernel/term.py, kernel/type.py, kernel/term_ord.py (real code) and
the parser as a producer of terms.  The nondeterminism the property quantifies over
("all histories of object creation and garbage collection") is owned through seam S1:
kernel.term.id is rebound to a simulated allocator whose address re-use is decided by
the PRNG.  Workload: a heap machine (slots of live terms/types); oracle: an independent
reference term model (checks/c03_model.py) plus a finite-standard-model evaluator."""
import gc

from holsim.log import EventLog, Counters
from holsim.rng import SimRng
from checks import c03_model as M

PROPERTY = 'C03'
HASHSEED_INDEPENDENT = True

_VARIANTS_Q = ['stale_id_in_term_init', 'subst_bound_cache_ignores_depth', 'inplace_keeps_hash',
               'abstract_over_ignores_type', 'subst_bound_no_lift', 'eq_ignores_abs_type']
TIERS = {
    'quick': dict(fork=False, worlds=16, runs=1500, batch=50, det_runs=16, soft_timeout=300,
                  variants=_VARIANTS_Q, variant_budget=1500, min_tests=120),
    'thorough': dict(fork=False, worlds=64, runs=25000, batch=100, det_runs=64, soft_timeout=900,
                     variants=_VARIANTS_Q + ['hash_ignores_type', 'compare_ignores_name', 'subst_cache_no_kind',
                                             'beta_norm_skips_arg', 'incr_wrong_level', 'subst_type_skips_abs'],
                     variant_budget=20000, min_tests=250),
}
MAX_SLOTS = 12
MAX_SIZE = 25


def warmup():
    from logic import basic
    from kernel import term, type as htype, term_ord  # noqa
    from syntax import parser  # noqa
    from logic import context  # noqa
    basic.load_theory('nat')


def describe():
    return {
        'rule': ('one evaluation = one simulated allocation/GC history of <=40 heap-machine ops (NEW, PARSE, WRAP, '
                 'COPY, REBUILD, SUBST_TYPE, SUBST_TYPE_INPLACE, SUBST, SUBST_BOUND, BETA_CONV, BETA_NORM, ABSTRACT/'
                 'Lambda/Forall, INCR, TSUBST, TMATCH, DROP, GC, CHURN, SETDICT, SORT) over <=12 live slots, terms '
                 '<=25 nodes, DAG-shaped with shared sub-objects at different binder depths; address re-use '
                 'probability in {0, 0.2, 0.7} drawn per run. After every op: result vs reference model, all-pairs '
                 '==/hash/ordering vs alpha-equality of mirrors, type preservation, denotation in 3 finite models, '
                 'no slot changed by a pure op. distinct_nontrivial counts distinct event-log digests of runs in '
                 'which at least one address was re-issued while a stale token or a live object could observe it '
                 '(reuse>0) or, for reuse=0 runs, at least one substitution under a binder happened.'),
        'real': ['kernel/term.py', 'kernel/type.py', 'kernel/term_ord.py', 'syntax/parser.py (Term(str), parse_term)'],
        'stubs': ['builtin id() as seen by kernel/term.py -> holsim.seams.SimAllocator',
                  'cyclic GC disabled; gc.collect() is a scheduled op'],
        'assumptions': ['the reference model in checks/c03_model.py is the textbook definition',
                        'well-typed inputs only; one type per variable name inside a term',
                        'denotation is evaluated in finite models with sorts of size 1-2 and function spaces <=300 elements'],
    }


# ---------------------------------------------------------------- generation (op lists are pure data)

_OPS = [('new', 16), ('newtype', 3), ('parse', 7), ('wrap', 3), ('copy', 3), ('rebuild', 5),
        ('subst_type', 5), ('inplace', 4), ('subst', 9), ('subst_bound', 8), ('beta_conv', 4),
        ('beta_norm', 8), ('abstract', 7), ('incr', 2), ('tsubst', 2), ('tmatch', 2),
        ('drop', 7), ('gc', 2), ('churn', 6), ('setdict', 3), ('sort', 2)]


def gen(rng, tier):
    cfg = {'reuse_p': rng.pick([0.0, 0.2, 0.7, 0.7]), 'share_p': rng.pick([0.0, 0.5, 0.5, 0.8]),
           'model_seed': rng.randrange(1 << 30)}
    if cfg['reuse_p'] == 0.0 and rng.chance(0.5):
        weights = [(k, (0 if k in ('drop', 'gc', 'churn') else w)) for k, w in _OPS]
        cfg['fault_free'] = True
    else:
        weights = list(_OPS)
    n = rng.randint(8, 40)
    ops = [{'op': 'new', 'seed': rng.randrange(1 << 30), 'slot': i} for i in range(3)]
    for _ in range(n):
        k = rng.weighted(weights)
        op = {'op': k, 'seed': rng.randrange(1 << 30), 'src': rng.randrange(64), 'arg': rng.randrange(64),
              'slot': rng.randrange(MAX_SLOTS), 'mode': rng.randrange(6)}
        ops.append(op)
    return cfg, ops


def shrink_op(op):
    out = []
    for k in ('src', 'arg', 'slot', 'mode'):
        if op.get(k):
            o = dict(op)
            o[k] = 0
            out.append(o)
    if op['op'] in ('churn', 'gc', 'setdict', 'sort'):
        pass
    return out


# ---------------------------------------------------------------- real <-> mirror

def read_type(T):
    ty = T.ty
    if ty == 0:
        return ('stv', T.name)
    if ty == 1:
        return ('tv', T.name)
    return ('tc', T.name, tuple(read_type(a) for a in T.args))


def read_term(t):
    ty = t.ty
    if ty == 0:
        return ('sv', t.name, read_type(t.T))
    if ty == 1:
        return ('v', t.name, read_type(t.T))
    if ty == 2:
        return ('c', t.name, read_type(t.T))
    if ty == 3:
        return ('app', read_term(t.fun), read_term(t.arg))
    if ty == 4:
        return ('abs', t.var_name, read_type(t.var_T), read_term(t.body))
    return ('b', t.n)


def build_type(m):
    from kernel.type import STVar, TVar, TConst
    if m[0] == 'stv':
        return STVar(m[1])
    if m[0] == 'tv':
        return TVar(m[1])
    return TConst(m[1], *[build_type(a) for a in m[2]])


def build_term(m, memo=None):
    """fresh real objects from a mirror; with memo identical sub-mirrors share one object"""
    from kernel.term import SVar, Var, Const, Comb, Abs, Bound
    if memo is not None and m in memo:
        return memo[m]
    k = m[0]
    if k == 'sv':
        r = SVar(m[1], build_type(m[2]))
    elif k == 'v':
        r = Var(m[1], build_type(m[2]))
    elif k == 'c':
        r = Const(m[1], build_type(m[2]))
    elif k == 'app':
        r = Comb(build_term(m[1], memo), build_term(m[2], memo))
    elif k == 'abs':
        r = Abs(m[1], build_type(m[2]), build_term(m[3], memo))
    else:
        r = Bound(m[1])
    if memo is not None:
        memo[m] = r
    return r


# ---------------------------------------------------------------- tiny independent printer (PARSE op)

def print_type(T):
    if T[0] == 'stv':
        return "?'" + T[1]
    if T[0] == 'tv':
        return "'" + T[1]
    if T[1] == 'fun':
        return '(%s => %s)' % (print_type(T[2][0]), print_type(T[2][1]))
    if not T[2]:
        return T[1]
    if len(T[2]) == 1:
        return '%s %s' % (print_type(T[2][0]), T[1])
    return '(%s) %s' % (', '.join(print_type(a) for a in T[2]), T[1])


def printable(m):
    """closed, only var / equals atoms, types over bool / nat / fun / type variables"""
    def okT(T):
        if T[0] in ('tv',):
            return True
        if T[0] == 'stv':
            return False
        if T[1] in ('bool', 'nat') and not T[2]:
            return True
        return T[1] == 'fun' and all(okT(a) for a in T[2])

    def rec(t):
        k = t[0]
        if k == 'v':
            return okT(t[2])
        if k == 'c':
            return t[1] == 'equals' and okT(t[2])
        if k == 'sv':
            return False
        if k == 'app':
            return rec(t[1]) and rec(t[2])
        if k == 'abs':
            return okT(t[2]) and rec(t[3])
        return True
    return rec(m) and not M.is_open(m)


def print_term(m):
    """fully parenthesised text; binder names made unique so nothing is captured by name"""
    cnt = [0]

    def rec(t, names):
        k = t[0]
        if k == 'v':
            return t[1]
        if k == 'b':
            return names[t[1]]
        if k == 'abs':
            cnt[0] += 1
            nm = 'bv%d' % cnt[0]
            return '(%%%s::%s. %s)' % (nm, print_type(t[2]), rec(t[3], [nm] + names))
        if k == 'app':
            f = t[1]
            if f[0] == 'app' and f[1][0] == 'c' and f[1][1] == 'equals':
                dom = f[1][2][2][0]
                if dom == M.BOOL:
                    return '(%s <--> %s)' % (rec(f[2], names), rec(t[2], names))
                return '(%s = %s)' % (rec(f[2], names), rec(t[2], names))
            if f[0] == 'c' and f[1] == 'equals':
                raise ValueError('partial equals')
            return '(%s %s)' % (rec(t[1], names), rec(t[2], names))
        raise ValueError('unprintable')
    return rec(m, [])


# ---------------------------------------------------------------- the machine

class Violation(Exception):
    def __init__(self, oracle, detail, sig=None):
        Exception.__init__(self, oracle)
        self.oracle = oracle
        self.detail = detail
        self.sig = sig or oracle


TYPE_ATOMS = [M.BOOL, ('tc', 'nat', ()), ('tv', 'a'), ('tv', 'b'), ('stv', 'a'), ('stv', 'b')]
VNAMES = ['x', 'y', 'z', 'u', 'w', 'f', 'g', 'h', 'p', 'q']


def gen_type(rng, depth=2, ground=False):
    atoms = [t for t in TYPE_ATOMS if not (ground and t[0] == 'stv')]
    if depth <= 0 or rng.chance(0.45):
        return rng.pick(atoms)
    k = rng.random()
    if k < 0.75:
        return M.fun(gen_type(rng, depth - 1, ground), gen_type(rng, depth - 1, ground))
    if k < 0.9:
        return ('tc', 'list', (gen_type(rng, depth - 1, ground),))
    return ('tc', 'prod', (gen_type(rng, depth - 1, ground), gen_type(rng, depth - 1, ground)))


class Machine:
    def __init__(self, cfg, log, ctr):
        from kernel import term as hterm
        self.cfg = cfg
        self.log = log
        self.ctr = ctr
        self.slots = [None] * MAX_SLOTS   # {'kind','real','mirror','subs':[(real, mirror, T, loose)]}
        self.names = {'v': {}, 'sv': {}, 'c': {}}
        self.alloc = None
        self.hterm = hterm
        self.nontrivial = False
        self.model_seed = cfg.get('model_seed', 0)
        self.sign = {}
        self.serial = 0

    # ----- term generation ---------------------------------------------------
    def atom_name(self, rng, kind, T, avoid=()):
        d = self.names[kind]
        same = sorted(n for n, t in d.items() if t == T and n not in avoid)
        if same and rng.chance(0.65):
            return rng.pick(same)
        base = {'v': VNAMES, 'sv': ['P', 'Q', 'x', 'f', 'a'], 'c': ['k', 'c', 'd']}[kind]
        for _ in range(20):
            n = rng.pick(base)
            if rng.chance(0.5):
                n = n + str(rng.randrange(4))
            if n not in d and n not in avoid and n != 'equals':
                d[n] = T
                return n
        n = '%s_%d' % (kind, len(d))
        d[n] = T
        return n

    def gen_term(self, rng, T, ctx, depth, pool, budget):
        """returns (real, mirror, loose) where loose: dict index -> required binder type"""
        H = self.hterm
        share = self.cfg.get('share_p', 0.5)
        if pool and rng.chance(share):
            cands = [e for e in pool if e[2] == T and all(i < len(ctx) and ctx[i] == ty for i, ty in e[3].items())]
            if cands:
                opens = [e for e in cands if e[3]]
                e = rng.pick(opens) if opens and rng.chance(0.6) else rng.pick(cands)
                self.ctr.inc('shared_subobjects')
                if e[3] and any(True for _ in e[3]):
                    self.ctr.inc('shared_open_subobjects')
                return e[0], e[1], dict(e[3])
        budget[0] -= 1
        leaf = depth <= 0 or budget[0] <= 0 or rng.chance(0.3)
        if leaf and M.is_fun(T) and budget[0] > 0 and rng.chance(0.35):
            leaf = False
        if leaf:
            bs = [i for i, ty in enumerate(ctx) if ty == T]
            k = rng.random()
            if bs and k < 0.5:
                i = rng.pick(bs)
                return self._reg(pool, H.Bound(i), ('b', i), T, {i: T})
            if k < 0.8:
                n = self.atom_name(rng, 'v', T)
                return self._reg(pool, H.Var(n, build_type(T)), ('v', n, T), T, {})
            if k < 0.92:
                n = self.atom_name(rng, 'sv', T)
                return self._reg(pool, H.SVar(n, build_type(T)), ('sv', n, T), T, {})
            n = self.atom_name(rng, 'c', T)
            return self._reg(pool, H.Const(n, build_type(T)), ('c', n, T), T, {})
        k = rng.random()
        if M.is_fun(T) and k < 0.45:
            D, R = T[2]
            nm = rng.pick(VNAMES + sorted(self.names['v'])) if rng.chance(0.8) else 'x'
            b, bm, bl = self.gen_term(rng, R, (D,) + tuple(ctx), depth - 1, pool, budget)
            loose = {i - 1: ty for i, ty in bl.items() if i >= 1}
            return self._reg(pool, H.Abs(nm, build_type(D), b), ('abs', nm, D, bm), T, loose)
        if T == M.BOOL and k < 0.6:
            A = gen_type(rng, 1)
            a, am, al = self.gen_term(rng, A, ctx, depth - 1, pool, budget)
            b, bm, bl = self.gen_term(rng, A, ctx, depth - 1, pool, budget)
            ET = M.fun(A, M.fun(A, M.BOOL))
            eq = H.Const('equals', build_type(ET))
            loose = dict(al)
            loose.update(bl)
            return self._reg(pool, H.Comb(H.Comb(eq, a), b), ('app', ('app', ('c', 'equals', ET), am), bm), T, loose)
        A = gen_type(rng, 1)
        if k < 0.8 or depth < 2:
            f, fm, fl = self.gen_term(rng, M.fun(A, T), ctx, depth - 1, pool, budget)
            a, am, al = self.gen_term(rng, A, ctx, depth - 1, pool, budget)
            loose = dict(fl)
            loose.update(al)
            return self._reg(pool, H.Comb(f, a), ('app', fm, am), T, loose)
        # beta-redex
        nm = rng.pick(VNAMES)
        b, bm, bl = self.gen_term(rng, T, (A,) + tuple(ctx), depth - 1, pool, budget)
        a, am, al = self.gen_term(rng, A, ctx, depth - 1, pool, budget)
        lam = H.Abs(nm, build_type(A), b)
        loose = {i - 1: ty for i, ty in bl.items() if i >= 1}
        loose.update(al)
        return self._reg(pool, H.Comb(lam, a), ('app', ('abs', nm, A, bm), am), T, loose)

    def gen_two_depths(self, rng, pool):
        """%x::D. (S = (%y::D. S) x) with ONE object S that mentions its nearest binder: the same
        Python object sits at two binder depths, where Bound(0) means x once and y once"""
        H = self.hterm
        D = gen_type(rng, 1)
        A = gen_type(rng, 1)
        S = None
        for _ in range(6):
            r, m, loose = self.gen_term(rng, A, (D,), rng.randint(1, 3), pool, [8])
            if 0 in loose:
                S = (r, m, loose)
                break
        if S is None:
            f = self.atom_name(rng, 'v', M.fun(D, A))
            r = H.Comb(H.Var(f, build_type(M.fun(D, A))), H.Bound(0))
            S = (r, ('app', ('v', f, M.fun(D, A)), ('b', 0)), {0: D})
            self._reg(pool, r, S[1], A, S[2])
        r, m, loose = S
        ET = M.fun(A, M.fun(A, M.BOOL))
        inner = H.Comb(H.Abs('y', build_type(D), r), H.Bound(0))
        inner_m = ('app', ('abs', 'y', D, m), ('b', 0))
        body = H.Comb(H.Comb(H.Const('equals', build_type(ET)), r), inner)
        body_m = ('app', ('app', ('c', 'equals', ET), m), inner_m)
        nm = rng.pick(VNAMES)
        self.ctr.inc('two_depth_dags')
        T = M.fun(D, M.BOOL)
        real = H.Abs(nm, build_type(D), body)
        mir = ('abs', nm, D, body_m)
        self._reg(pool, real, mir, T, {})
        return real, mir, {}, T

    def _reg(self, pool, real, mirror, T, loose):
        if pool is not None and len(pool) < 60:
            pool.append((real, mirror, T, loose))
        return real, mirror, loose

    def pool_from_slots(self):
        pool = []
        for s in self.slots:
            if s and s['kind'] == 'term':
                pool.extend(s.get('subs', [])[:10])
        return pool

    # ----- slots --------------------------------------------------------------
    def put(self, idx, real, mirror, kind='term', subs=None):
        if kind == 'term' and M.size(mirror) > MAX_SIZE * 3:
            self.ctr.inc('result_too_big_dropped')
            return
        free = [i for i, s in enumerate(self.slots) if s is None]
        i = free[idx % len(free)] if free else idx % MAX_SLOTS
        self.serial += 1
        ent = {'kind': kind, 'real': real, 'mirror': mirror, 'ser': self.serial}
        if kind == 'term':
            if subs is None:
                try:
                    T = M.type_of(mirror)
                    subs = [(real, mirror, T, {})]
                except M.Reject:
                    subs = []
            ent['subs'] = subs
        self.slots[i] = ent

    def live(self, kind='term'):
        return [i for i, s in enumerate(self.slots) if s is not None and s['kind'] == kind]

    def pick(self, n, kind='term', pred=None):
        idxs = [i for i in self.live(kind) if pred is None or pred(self.slots[i]['mirror'])]
        if not idxs:
            return None
        return self.slots[idxs[n % len(idxs)]]

    # ----- oracles ------------------------------------------------------------
    def models(self):
        return [M.Model((self.model_seed, i)) for i in range(3)]

    def closed_typed(self, m):
        try:
            return M.type_of(m)
        except M.Reject:
            return None

    def judge(self, opname, real_res, want, sem=None, want_type=None, detail=''):
        """real_res: real object; want: mirror result (or None when only semantics apply);
        sem(model, got_mirror) -> bool|None : denotation equation on the real result;
        want_type: expected type of a closed result."""
        got = read_term(real_res)
        self.check_ids(real_res, opname)
        sem_ok = None
        typed = None
        if want_type is not None:
            try:
                gt = M.type_of(got)
                typed = (gt == want_type)
                if not typed:
                    raise Violation(opname + '.type-changed',
                                    '%s: result has type %s, expected %s; result=%s %s' % (opname, gt, want_type, got, detail),
                                    opname + '.type-changed')
            except M.Reject as e:
                raise Violation(opname + '.ill-typed-result',
                                '%s: result is not well-typed (%s): %s %s' % (opname, e, got, detail),
                                opname + '.ill-typed-result')
            if sem is not None:
                n_eval = 0
                for mod in self.models():
                    try:
                        ok = sem(mod, got)
                    except M.TooBig:
                        self.ctr.inc('denotation_skipped_too_big')
                        continue
                    n_eval += 1
                    self.ctr.inc('denotation_evaluations')
                    if not ok:
                        raise Violation(opname + '.denotation-changed',
                                        '%s changes the denotation in finite model %s: result=%s %s' % (
                                            opname, mod.seed, got, detail), opname + '.denotation-changed')
                if n_eval:
                    sem_ok = True
        if want is not None and M.strip(got) != M.strip(want):
            if sem_ok and typed:
                self.ctr.inc('probe_structural_mismatch_semantically_ok')
            else:
                raise Violation(opname + '.vs-reference',
                                '%s: result %s differs from the reference result %s %s' % (opname, got, want, detail),
                                opname + '.vs-reference')
        return got

    def check_ids(self, real, opname):
        pass

    def check_all(self, seq, full=False):
        from kernel import term_ord
        terms = [(i, s) for i, s in enumerate(self.slots) if s and s['kind'] == 'term']
        types = [(i, s) for i, s in enumerate(self.slots) if s and s['kind'] == 'type']
        # (5) no slot was changed
        for i, s in terms:
            now = read_term(s['real'])
            if now != s['mirror']:
                raise Violation('slot-mutated', 'slot %d changed from %s to %s after op %d' % (i, s['mirror'], now, seq),
                                'slot-mutated')
        for i, s in types:
            if read_type(s['real']) != s['mirror']:
                raise Violation('slot-mutated', 'type slot %d changed after op %d' % (i, seq), 'slot-mutated')
        # (2) equality / hash / order.  Pairs of two unchanged entries were judged when the younger
        # one was created; they are re-judged on every 8th op and at the end of the run.
        keys = [M.strip(s['mirror']) for _, s in terms]
        sign = self.sign
        for a in range(len(terms)):
            ta = terms[a][1]['real']
            sa = terms[a][1]['ser']
            for b in range(a, len(terms)):
                tb = terms[b][1]['real']
                sb = terms[b][1]['ser']
                if not full and (sa, sb) in sign:
                    continue
                want = keys[a] == keys[b]
                got = (ta == tb)
                got2 = (tb == ta)
                if got != want or got2 != want:
                    self.probe_stale(ta, tb)
                    raise Violation('eq-vs-alpha',
                                    'slot %d == slot %d is %s/%s but alpha-equivalence is %s: %s vs %s (ids %s %s)' % (
                                        terms[a][0], terms[b][0], got, got2, want, terms[a][1]['mirror'],
                                        terms[b][1]['mirror'], getattr(ta, '_id', None), getattr(tb, '_id', None)),
                                    'eq-vs-alpha:' + ('false-positive' if got or got2 else 'false-negative'))
                if want and hash(ta) != hash(tb):
                    raise Violation('hash-vs-eq', 'equal terms in slots %d, %d have different hashes: %s' % (
                        terms[a][0], terms[b][0], terms[a][1]['mirror']), 'hash-vs-eq')
                c1 = term_ord.fast_compare(ta, tb)
                c2 = term_ord.fast_compare(tb, ta)
                if (c1 == 0) != want or (c2 == 0) != want or (c1 > 0) != (c2 < 0):
                    raise Violation('order-vs-eq',
                                    'fast_compare(%d,%d)=%s, reverse %s, alpha-equal %s: %s vs %s' % (
                                        terms[a][0], terms[b][0], c1, c2, want, terms[a][1]['mirror'], terms[b][1]['mirror']),
                                    'order-vs-eq')
                sign[(sa, sb)] = (c1 > 0) - (c1 < 0)
                sign[(sb, sa)] = (c2 > 0) - (c2 < 0)
                self.ctr.inc('pairs_judged')
        if full:
            # transitivity over all triples of live terms, from the judged signs
            sers = [s['ser'] for _, s in terms]
            for x in sers:
                for y in sers:
                    if sign[(x, y)] >= 0:
                        continue
                    for z in sers:
                        if sign[(y, z)] < 0 and not sign[(x, z)] < 0:
                            raise Violation('order-not-transitive', 'fast_compare is not transitive on slots with serials %s' % (
                                (x, y, z),), 'order-not-transitive')
            live = set(sers)
            for kk in [kk for kk in sign if kk[0] not in live or kk[1] not in live]:
                del sign[kk]
        for a in range(len(types)):
            Ta = types[a][1]['real']
            for b in range(a, len(types)):
                Tb = types[b][1]['real']
                want = types[a][1]['mirror'] == types[b][1]['mirror']
                if (Ta == Tb) != want or (Tb == Ta) != want:
                    raise Violation('type-eq', 'type equality %s vs %s is %s, expected %s' % (
                        types[a][1]['mirror'], types[b][1]['mirror'], Ta == Tb, want), 'type-eq')
                if want and hash(Ta) != hash(Tb):
                    raise Violation('type-hash', 'equal types hash differently: %s' % (types[a][1]['mirror'],), 'type-hash')
                c1 = term_ord.fast_compare_typ(Ta, Tb)
                c2 = term_ord.fast_compare_typ(Tb, Ta)
                if (c1 == 0) != want or (c1 > 0) != (c2 < 0):
                    raise Violation('type-order', 'fast_compare_typ inconsistent on %s / %s: %s %s' % (
                        types[a][1]['mirror'], types[b][1]['mirror'], c1, c2), 'type-order')

    def probe_stale(self, ta, tb):
        self.ctr.inc('probe_eq_mismatch_seen')

    # ----- ops ----------------------------------------------------------------
    def step(self, seq, op):
        H = self.hterm
        k = op['op']
        rng = SimRng('c03-op', op.get('seed', 0))
        ctr = self.ctr
        log = self.log
        if k == 'new':
            T = gen_type(rng, 2)
            pool = self.pool_from_slots() if rng.chance(0.7) else []
            npool = len(pool)
            ctx = ()
            if rng.chance(0.12):
                ctx = tuple(gen_type(rng, 1) for _ in range(rng.randint(1, 2)))
            if op.get('mode', 0) % 6 == 5:
                real, mir, loose, T = self.gen_two_depths(rng, pool)
            else:
                real, mir, loose = self.gen_term(rng, T, ctx, rng.randint(1, 4), pool, [rng.randint(3, MAX_SIZE)])
            subs = [e for e in pool[npool:] if e[0] is not real][:10]
            subs.append((real, mir, T, loose))
            got = read_term(real)
            if got != mir:
                raise Violation('constructor-vs-reference', 'constructed %s, expected %s' % (got, mir), 'constructor-vs-reference')
            self.put(op['slot'], real, mir, subs=subs)
            log.add(seq, 'new', M.size(mir), bool(loose))
        elif k == 'newtype':
            T = gen_type(rng, 3)
            self.put(op['slot'], build_type(T), T, kind='type')
            log.add(seq, 'newtype', str(T))
        elif k == 'parse':
            s = self.pick(op['src'], pred=printable)
            if s is None:
                return
            from logic import context
            from syntax import parser
            m = s['mirror']
            try:
                text = print_term(m)
            except ValueError:
                return
            vs = {a[1]: print_type(a[2]) for a in M.atoms(m, set()) if a[0] == 'v'}
            try:
                context.set_context('nat', vars=vs)
                if op['mode'] % 2 == 0:
                    t = H.Term(text)
                else:
                    t = parser.parse_term(text)
            except Exception as e:
                ctr.inc('parse_failed')
                log.add(seq, 'parse', 'failed', type(e).__name__)
                return
            got = read_term(t)
            if M.strip(got) != M.strip(m):
                # the parser is C07's business; a differing parse is only used, not judged
                ctr.inc('probe_parse_differs')
                m = got
            else:
                m = got  # keep the parser's binder names
            ctr.inc('parsed_terms' if op['mode'] % 2 else 'Term_of_text')
            self.put(op['slot'], t, m)
            log.add(seq, 'parse', op['mode'] % 2, M.size(m))
        elif k == 'wrap':
            s = self.pick(op['src'])
            if s is None:
                return
            t = H.Term(s['real'])
            self.put(op['slot'], t, s['mirror'])
            log.add(seq, 'wrap')
        elif k == 'copy':
            s = self.pick(op['src'])
            if s is None:
                return
            from copy import copy
            t = copy(s['real'])
            self.judge('copy', t, s['mirror'])
            self.put(op['slot'], t, read_term(t))
            log.add(seq, 'copy')
        elif k == 'rebuild':
            s = self.pick(op['src'])
            if s is None:
                return
            t = build_term(s['mirror'], {} if op['mode'] % 2 else None)
            self.put(op['slot'], t, s['mirror'])
            log.add(seq, 'rebuild')
        elif k == 'subst_type':
            s = self.pick(op['src'])
            if s is None:
                return
            from kernel.type import TyInst
            m = s['mirror']
            ti = self.gen_tyinst(rng, m)
            real_ti = TyInst({n: build_type(T) for n, T in ti.items()})
            want = M.subst_type(m, ti)
            try:
                res = s['real'].subst_type(real_ti)
            except Exception as e:
                raise Violation('subst_type.raised', 'subst_type(%s) on %s raised %r' % (ti, m, e), 'subst_type.raised')
            T0 = self.closed_typed(m)
            got = self.judge('subst_type', res, want,
                             sem=(lambda mod, g: mod.eval(g) == mod.eval(m, ti=ti)) if T0 else None,
                             want_type=M.t_subst(T0, ti) if T0 else None, detail='tyinst=%s input=%s' % (ti, m))
            self.put(op['slot'], res, got)
            log.add(seq, 'subst_type', len(ti))
        elif k == 'inplace':
            s = self.pick(op['src'])
            if s is None:
                return
            from kernel.type import TyInst
            m = s['mirror']
            dag = op['mode'] % 2 == 0
            priv = build_term(m, {} if dag else None)   # private object graph, with or without internal sharing
            h0 = hash(priv)                    # memoise hashes everywhere
            ti = self.gen_tyinst(rng, m)
            if not ti:
                ti = {'a': ('tc', 'nat', ())}
            if dag:
                # an in-place pass visits a shared sub-object once per occurrence, so on a DAG only an
                # idempotent instantiation is meaningful (its only caller, type inference, passes one)
                ti = {n: M.t_subst(T, {x: ('tc', 'nat', ()) for x in M.t_stvars(T, [])}) for n, T in ti.items()}
                ctr.inc('inplace_on_dag')
            real_ti = TyInst({n: build_type(T) for n, T in ti.items()})
            want = M.subst_type(m, ti)
            try:
                priv.subst_type_inplace(real_ti)
            except Exception as e:
                raise Violation('inplace.raised', 'subst_type_inplace raised %r on %s' % (e, m), 'inplace.raised')
            got = read_term(priv)
            if M.strip(got) != M.strip(want):
                raise Violation('inplace.vs-reference', 'subst_type_inplace(%s) on %s gave %s, expected %s' % (ti, m, got, want),
                                'inplace.vs-reference')
            fresh = build_term(want)
            if not (priv == fresh) or hash(priv) != hash(fresh):
                raise Violation('inplace.stale-hash',
                                'after subst_type_inplace(%s) the term %s is == to a fresh copy: %s, hashes equal: %s (hash before %s)' % (
                                    ti, got, priv == fresh, hash(priv) == hash(fresh), h0), 'inplace.stale-hash')
            self.put(op['slot'], priv, got)
            log.add(seq, 'inplace', len(ti))
        elif k == 'subst':
            s = self.pick(op['src'])
            if s is None:
                return
            self.op_subst(seq, op, rng, s)
        elif k == 'subst_bound' or k == 'beta_conv':
            self.op_subst_bound(seq, op, rng, k)
        elif k == 'beta_norm':
            s = self.pick(op['src'], pred=lambda m: self.closed_typed(m) is not None)
            if s is None:
                return
            m = s['mirror']
            T0 = self.closed_typed(m)
            try:
                want = M.beta_norm(m, [200])
            except (M.OutOfFuel, RecursionError):
                ctr.inc('beta_norm_out_of_fuel')
                return
            try:
                res = s['real'].beta_norm()
            except Exception as e:
                raise Violation('beta_norm.raised', 'beta_norm raised %r on %s' % (e, m), 'beta_norm.raised')
            if M.strip(want) != M.strip(m):
                self.nontrivial = True
            got = self.judge('beta_norm', res, want,
                             sem=(lambda mod, g: mod.eval(g) == mod.eval(m)) if T0 else None,
                             want_type=T0, detail='input=%s' % (m,))
            self.put(op['slot'], res, got)
            log.add(seq, 'beta_norm', M.size(m), M.size(got))
        elif k == 'abstract':
            s = self.pick(op['src'])
            if s is None:
                return
            self.op_abstract(seq, op, rng, s)
        elif k == 'incr':
            s = self.pick(op['src'])
            if s is None:
                return
            inc = 1 + op['mode'] % 3
            want = M.lift(s['mirror'], inc)
            res = s['real'].incr_boundvars(inc)
            got = read_term(res)
            if M.strip(got) != M.strip(want):
                raise Violation('incr.vs-reference', 'incr_boundvars(%d) on %s gave %s, expected %s' % (inc, s['mirror'], got, want),
                                'incr.vs-reference')
            self.put(op['slot'], res, got)
            log.add(seq, 'incr', inc)
        elif k == 'tsubst':
            s = self.pick(op['src'], kind='type')
            if s is None:
                return
            from kernel.type import TyInst
            T = s['mirror']
            ti = {n: gen_type(rng, 1) for n in M.t_stvars(T, []) if rng.chance(0.7)}
            res = s['real'].subst(TyInst({n: build_type(x) for n, x in ti.items()}))
            if read_type(res) != M.t_subst(T, ti):
                raise Violation('type.subst', 'Type.subst(%s) on %s gave %s' % (ti, T, read_type(res)), 'type.subst')
            self.put(op['slot'], res, read_type(res), kind='type')
            log.add(seq, 'tsubst')
        elif k == 'tmatch':
            s = self.pick(op['src'], kind='type')
            s2 = self.pick(op['arg'], kind='type')
            if s is None or s2 is None:
                return
            pat, T = s['mirror'], s2['mirror']
            if rng.chance(0.6):
                T = M.t_subst(pat, {n: gen_type(rng, 1, ground=True) for n in M.t_stvars(pat, [])})
            want = {}
            try:
                M.t_match(pat, T, want)
            except M.Reject:
                want = None
            try:
                got = s['real'].match(build_type(T))
                got = {n: read_type(x) for n, x in got.items()}
            except Exception as e:
                if type(e).__name__ != 'TypeMatchException':
                    raise Violation('type.match', 'Type.match raised %r' % (e,), 'type.match')
                got = None
            if got != want:
                raise Violation('type.match', 'match(%s, %s) gave %s, expected %s' % (pat, T, got, want), 'type.match')
            log.add(seq, 'tmatch', want is not None)
        elif k == 'drop':
            idxs = [i for i, s in enumerate(self.slots) if s is not None]
            if len(idxs) <= 2:
                return
            i = idxs[op['slot'] % len(idxs)]
            self.slots[i] = None
            ctr.inc('fault_drop')
            log.add(seq, 'drop', i)
        elif k == 'gc':
            gc.collect()
            ctr.inc('fault_gc_collect')
            log.add(seq, 'gc')
        elif k == 'churn':
            # allocate and immediately discard objects: moves the allocator's free list
            n = 1 + op['arg'] % 6
            for _ in range(n):
                T = gen_type(rng, 1)
                self.gen_term(rng, T, (), 2, None, [6])
            ctr.inc('fault_churn')
            log.add(seq, 'churn', n)
        elif k == 'setdict':
            terms = [s for s in self.slots if s and s['kind'] == 'term']
            d = {}
            st = set()
            for s in terms:
                d[s['real']] = M.strip(s['mirror'])
                st.add(s['real'])
            want_n = len(set(M.strip(s['mirror']) for s in terms))
            if len(d) != want_n or len(st) != want_n:
                raise Violation('dict-membership', 'dict over %d slots has %d keys, set has %d, expected %d distinct terms' % (
                    len(terms), len(d), len(st), want_n), 'dict-membership')
            for s in terms:
                probe = build_term(s['mirror'])
                if d.get(probe) != M.strip(s['mirror']) or probe not in st:
                    raise Violation('dict-membership', 'a fresh copy of %s is not found in a dict keyed by the original' % (s['mirror'],),
                                    'dict-membership')
            log.add(seq, 'setdict', len(d))
        elif k == 'sort':
            from kernel import term_ord
            terms = [s for s in self.slots if s and s['kind'] == 'term']
            res = term_ord.sorted_terms([s['real'] for s in terms])
            want_n = len(set(M.strip(s['mirror']) for s in terms))
            if len(res) != want_n:
                raise Violation('sort', 'sorted_terms returned %d terms for %d distinct inputs' % (len(res), want_n), 'sort')
            for i in range(len(res)):
                for j in range(i + 1, len(res)):
                    if not term_ord.fast_compare(res[i], res[j]) < 0:
                        raise Violation('sort', 'sorted_terms output not strictly increasing at %d,%d' % (i, j), 'sort')
            log.add(seq, 'sort', len(res))
        else:
            raise ValueError(k)

    def well_typed_open(self, m):
        """open term that is well-typed under some binder context"""
        return False

    def gen_tyinst(self, rng, m):
        names = []
        for a in sorted(M.atoms(m, set())):
            M.t_stvars(a[2], names)

        def absT(t):
            if t[0] == 'abs':
                M.t_stvars(t[2], names)
                absT(t[3])
            elif t[0] == 'app':
                absT(t[1])
                absT(t[2])
        absT(m)
        ti = {}
        for n in names:
            if rng.chance(0.75):
                ti[n] = gen_type(rng, 1)
        if rng.chance(0.2):
            ti['zz'] = M.BOOL
        return ti

    def op_subst(self, seq, op, rng, s):
        H = self.hterm
        from kernel.type import TyInst
        m = s['mirror']
        T0 = self.closed_typed(m)
        if T0 is None:
            return
        svs = M.svars(m, [])
        # one type per schematic name, else the input is outside the statement
        if len(set(v[1] for v in svs)) != len(svs):
            return
        vs = sorted(a for a in M.atoms(m, set()) if a[0] == 'v')
        if len(set(v[1] for v in vs)) != len(vs):
            return
        stv = []
        for a in sorted(M.atoms(m, set())):
            M.t_stvars(a[2], stv)
        ti0 = {n: gen_type(rng, 1, ground=rng.chance(0.8)) for n in stv}
        chosen = [v for v in svs if rng.chance(0.7)]
        inferable = []
        for v in chosen:
            M.t_stvars(v[2], inferable)
        pre = {}
        ti_eff = {}
        for n in stv:
            if n in inferable:
                ti_eff[n] = ti0[n]
                if rng.chance(0.3):
                    pre[n] = ti0[n]
            elif rng.chance(0.5):
                ti_eff[n] = ti0[n]
                pre[n] = ti0[n]
        pool = self.pool_from_slots()
        sinst = {}
        real_s = {}
        for v in chosen:
            VT = M.t_subst(v[2], ti0)
            r, mm, loose = self.gen_term(rng, VT, (), rng.randint(0, 2), [e for e in pool if not e[3]], [8])
            sinst[v[1]] = mm
            real_s[v[1]] = r
        vinst = {}
        real_v = {}
        for v in vs:
            if rng.chance(0.3):
                VT = M.t_subst(v[2], ti_eff)
                r, mm, loose = self.gen_term(rng, VT, (), rng.randint(0, 2), [e for e in pool if not e[3]], [6])
                vinst[v[1]] = mm
                real_v[v[1]] = r
        absn = {}

        def absnames(t):
            if t[0] == 'abs':
                if rng.chance(0.3):
                    absn[t[1]] = rng.pick(VNAMES)
                absnames(t[3])
            elif t[0] == 'app':
                absnames(t[1])
                absnames(t[2])
        absnames(m)
        inst = H.Inst(real_s)
        inst.tyinst = TyInst({n: build_type(T) for n, T in pre.items()})
        inst.var_inst = dict(real_v)
        inst.abs_name_inst = dict(absn)
        minst = {'ty': pre, 's': sinst, 'v': vinst, 'abs': absn}
        try:
            want, ti_used = M.subst(m, minst)
        except M.Reject as e:
            self.ctr.inc('subst_reference_rejects')
            return
        try:
            res = s['real'].subst(inst)
        except Exception as e:
            raise Violation('subst.raised', 'subst raised %r; term=%s inst=%s' % (e, m, minst), 'subst.raised')
        if sinst or vinst:
            self.nontrivial = True

        def sem(mod, g):
            sval = {n: mod.eval(x) for n, x in sinst.items()}
            vval = {n: mod.eval(x) for n, x in vinst.items()}
            return mod.eval(g) == mod.eval(m, ti=ti_used, sval=sval, vval=vval)
        got = self.judge('subst', res, want, sem=sem, want_type=M.t_subst(T0, ti_used),
                         detail='term=%s inst=%s' % (m, minst))
        self.put(op['slot'], res, got)
        self.log.add(seq, 'subst', len(sinst), len(vinst), len(ti_used))

    def op_subst_bound(self, seq, op, rng, k):
        if k == 'beta_conv':
            s = self.pick(op['src'], pred=lambda m: m[0] == 'app' and m[1][0] == 'abs')
            if s is None:
                return
            m = s['mirror']
            lam, arg = m[1], m[2]
            want = M.subst_bound(lam, arg)
            try:
                res = s['real'].beta_conv()
            except Exception as e:
                raise Violation('beta_conv.raised', 'beta_conv raised %r on %s' % (e, m), 'beta_conv.raised')
            T0 = self.closed_typed(m)
            got = self.judge('beta_conv', res, want,
                             sem=(lambda mod, g: mod.eval(g) == mod.eval(m)) if T0 else None,
                             want_type=T0, detail='input=%s' % (m,))
            self.nontrivial = True
            self.put(op['slot'], res, got)
            self.log.add(seq, 'beta_conv', M.size(m))
            return
        s = self.pick(op['src'], pred=lambda m: m[0] == 'abs')
        if s is None:
            return
        m = s['mirror']
        D = m[2]
        # argument: an existing (possibly open) sub-object of the right type, or a new term
        cands = [e for e in self.pool_from_slots() if e[2] == D]
        mode = op['mode'] % 3
        if cands and mode != 0:
            opens = [e for e in cands if e[3]]
            if opens and mode == 1:
                cands = opens
            e = cands[op['arg'] % len(cands)]
            areal, am, aloose = e[0], e[1], e[3]
        else:
            ctx = ()
            if mode == 2:
                ctx = (gen_type(rng, 1),)
            areal, am, aloose = self.gen_term(rng, D, ctx, rng.randint(0, 2), None, [6])
        want = M.subst_bound(m, am)
        try:
            res = s['real'].subst_bound(areal)
        except Exception as e:
            raise Violation('subst_bound.raised', 'subst_bound raised %r on %s with %s' % (e, m, am), 'subst_bound.raised')
        T0 = self.closed_typed(m)
        closed_arg = not aloose and self.closed_typed(am) is not None
        if aloose:
            self.ctr.inc('loose_bound_arguments')
        sem = None
        wt = None
        if T0 and closed_arg:
            wt = T0[2][1]

            def sem(mod, g):
                f, FT = mod.eval(m)
                a, AT = mod.eval(am)
                return mod.eval(g)[0] == f[mod.index(AT, a)]
        got = self.judge('subst_bound', res, want, sem=sem, want_type=wt, detail='abs=%s arg=%s' % (m, am))
        self.nontrivial = True
        self.put(op['slot'], res, got)
        self.log.add(seq, 'subst_bound', M.size(m), bool(aloose))

    def op_abstract(self, seq, op, rng, s):
        H = self.hterm
        m = s['mirror']
        T0 = self.closed_typed(m)
        fv = sorted(a for a in M.atoms(m, set()) if a[0] in ('v', 'sv'))
        if len(set((v[0], v[1]) for v in fv)) != len(fv):
            return
        mode = op['mode'] % 3
        if fv and rng.chance(0.12):
            v0 = fv[op['arg'] % len(fv)]
            T = gen_type(rng, 1)
            if T == v0[2]:
                T = M.fun(T, T)
            var = (v0[0], v0[1], T)      # same name, another type: a different variable
            self.ctr.inc('abstract_same_name_other_type')
        elif fv and rng.chance(0.85):
            var = fv[op['arg'] % len(fv)]
        else:
            T = gen_type(rng, 1)
            var = ('v', 'fresh%d' % (op['arg'] % 3), T)
        rvar = H.Var(var[1], build_type(var[2])) if var[0] == 'v' else H.SVar(var[1], build_type(var[2]))
        try:
            body = M.abstract_over(m, var)
        except M.Reject:
            # same name at another type: holpy refuses; binding it anyway would be ill-typed
            try:
                res = s['real'].abstract_over(rvar) if mode == 0 else H.Lambda(rvar, s['real'])
            except Exception:
                self.ctr.inc('abstract_refused_wrong_type')
                return
            got = read_term(res)
            if mode != 0:
                try:
                    M.type_of(got)
                except M.Reject as e:
                    raise Violation('abstract.ill-typed-result', 'abstraction over %s in %s gives the ill-typed %s' % (var, m, got),
                                    'abstract.ill-typed-result')
            elif M.strip(got) != M.strip(m):
                raise Violation('abstract.captures-other-variable',
                                'abstract_over(%s) bound a variable of another type in %s: %s' % (var, m, got),
                                'abstract.captures-other-variable')
            return
        try:
            if mode == 0:
                res = s['real'].abstract_over(rvar)
                want = body
            elif mode == 1:
                res = H.Lambda(rvar, s['real'])
                want = ('abs', var[1], var[2], body)
            else:
                if T0 != M.BOOL:
                    return
                res = H.Forall(rvar, s['real'])
                AT = M.fun(M.fun(var[2], M.BOOL), M.BOOL)
                want = ('app', ('c', 'all', AT), ('abs', var[1], var[2], body))
        except Exception as e:
            raise Violation('abstract.raised', 'abstraction over %s raised %r on %s' % (var, e, m), 'abstract.raised')
        sem = None
        wt = None
        if T0 and mode == 1:
            wt = M.fun(var[2], T0)

            def sem(mod, g):
                f, FT = mod.eval(g)
                for d in mod.carrier(var[2]):
                    val = mod.eval(m, sval={var[1]: (d, var[2])} if var[0] == 'sv' else None,
                                   vval={var[1]: (d, var[2])} if var[0] == 'v' else None)
                    if f[mod.index(var[2], d)] != val[0]:
                        return False
                return True
        elif T0 and mode == 2:
            wt = M.BOOL
        got = self.judge('abstract', res, want, sem=sem, want_type=wt, detail='var=%s input=%s' % (var, m))
        self.nontrivial = True
        if mode == 0 and M.is_open(got):
            # an open body: keep it, it is a legitimate loose-bound argument later
            self.put(op['slot'], res, got, subs=[(res, got, T0, {0: var[2]})] if T0 else [])
        else:
            self.put(op['slot'], res, got)
        self.log.add(seq, 'abstract', mode, var[0])


def execute(cfg, ops, env):
    from kernel import term as hterm
    from holsim.seams import SimAllocator
    log = EventLog()
    ctr = Counters()
    res = {'violation': None, 'known_hits': {}, 'nops': 0, 'state_keys': []}
    alloc = SimAllocator(SimRng('c03-alloc', cfg.get('model_seed', 0)), cfg.get('reuse_p', 0.0))
    old_id = hterm.__dict__.get('id')
    hterm.id = alloc
    gc.disable()
    mach = Machine(cfg, log, ctr)
    mach.alloc = alloc
    try:
        for seq, op in enumerate(ops):
            ctr.inc('ops')
            ctr.inc('op_' + op['op'])
            mach.step(seq, op)
            mach.check_all(seq, full=(seq % 8 == 7 or seq == len(ops) - 1))
    except Violation as v:
        res['violation'] = {'oracle': v.oracle, 'detail': str(v.detail)[:1500], 'sig': v.sig, 'event_seq': log.n}
    finally:
        if old_id is None:
            try:
                del hterm.id
            except AttributeError:
                pass
        else:
            hterm.id = old_id
    mach.slots = None
    ctr['addresses_issued'] = alloc.issued
    ctr['fault_address_reissued'] = alloc.reissued
    ctr['addresses_released'] = alloc.released
    if cfg.get('fault_free'):
        ctr.inc('runs_fault_free')
    res['nops'] = ctr.get('ops', 0)
    log.add('alloc', alloc.issued, alloc.reissued)
    res['digest'] = log.digest()
    res['counters'] = ctr
    res['events'] = log.events[:14]
    if mach.nontrivial and (alloc.reissued > 0 or cfg.get('reuse_p', 0) == 0):
        res['state_keys'] = [log.digest()[:16]]
    return res


# ---------------------------------------------------------------- sensitivity variants (in-memory only)

def _p(owner, name, old, new):
    from holsim.seams import patch_source
    patch_source(owner, name, old, new)


def _v_stale_id():
    """re-creates the defect repaired by the fix: commit (Term.__init__ kept the parsed object's token)"""
    from kernel import term
    _p(term.Term, '__init__', "self._id = id(self)", "pass")


def _v_sb_cache():
    from kernel import term
    _p(term.Term, 'subst_bound', "if (id_s, n) in cache:\n                return cache[(id_s, n)]",
       "if id_s in cache:\n                return cache[id_s]")
    _p(term.Term, 'subst_bound', "cache[(id_s, n)] = res", "cache[id_s] = res")
    _p(term.Term, 'subst_bound', "cache[(id_s, n)] = res", "cache[id_s] = res")


def _v_inplace_hash():
    from kernel import term
    _p(term.Term, 'subst_type_inplace', 'if hasattr(self, "_hash_val"):\n            del self._hash_val', 'pass')


def _v_abstract_type():
    from kernel import term
    _p(term.Term, 'abstract_over', "if t.is_var() and s.name == t.name:\n                    if s.T != t.T:",
       "if t.is_var() and s.name == t.name:\n                    if False:")


def _v_sb_no_lift():
    from kernel import term
    _p(term.Term, 'subst_bound', "return t.incr_boundvars(n)", "return t")


def _v_eq_abs_type():
    from kernel import term
    _p(term.Term, '__eq__', "return self.var_T == other.var_T and self.body == other.body", "return self.body == other.body")


def _v_hash_type():
    from kernel import term
    _p(term.Term, '__eq__', "return self.name == other.name and self.T == other.T",
       "return self.name == other.name and (self.ty != 1 or self.T == other.T)")


def _v_compare_name():
    from kernel import term_ord
    _p(term_ord, 'fast_compare',
       "return compare_pair((t1.name, t1.T), (t2.name, t2.T), compare_atom, fast_compare_typ)",
       "return fast_compare_typ(t1.T, t2.T) if t1.is_svar() else compare_pair((t1.name, t1.T), (t2.name, t2.T), compare_atom, fast_compare_typ)")


def _v_subst_cache():
    from kernel import term
    _p(term.Term, 'subst', "if fun_t._id == t.fun._id and arg_t._id == t.arg._id:",
       "if fun_t._id == t.fun._id:")


def _v_beta_skip():
    from kernel import term
    _p(term.Term, 'beta_norm', "return Abs(self.var_name, self.var_T, self.body.beta_norm())",
       "return self")


def _v_incr_level():
    from kernel import term
    _p(term.Term, 'incr_boundvars', "body_t = rec(t.body, lev+1)", "body_t = rec(t.body, lev)")


def _v_st_abs():
    from kernel import term
    _p(term.Term, 'subst_type', "return Abs(self.var_name, self.var_T.subst(tyinst), self.body.subst_type(tyinst))",
       "return Abs(self.var_name, self.var_T, self.body.subst_type(tyinst))")


VARIANTS = {
    'stale_id_in_term_init': _v_stale_id,
    'subst_bound_cache_ignores_depth': _v_sb_cache,
    'inplace_keeps_hash': _v_inplace_hash,
    'abstract_over_ignores_type': _v_abstract_type,
    'subst_bound_no_lift': _v_sb_no_lift,
    'eq_ignores_abs_type': _v_eq_abs_type,
    'hash_ignores_type': _v_hash_type,
    'compare_ignores_name': _v_compare_name,
    'subst_cache_no_kind': _v_subst_cache,
    'beta_norm_skips_arg': _v_beta_skip,
    'incr_wrong_level': _v_incr_level,
    'subst_type_skips_abs': _v_st_abs,
}
