"""C17 - congruence closure decides exactly the equalities entailed by the merges.

Simulated system: prover/congc.py (string-level core and HOL wrapper), real code.
Scheduler: delivers a multiset of equations in a PRNG-chosen order with duplicates,
reversed orientation and already-entailed merges, interleaved with add / test /
explain / ematch calls; then re-delivers the same multiset in other orders to fresh
instances.  Oracle: naive fixpoint congruence closure written here from the
definition (reflexivity, symmetry, transitivity, congruence over the sub-term closed
universe), compared after every op; explanations are checked against the delivered
equations, re-entailment, and (HOL) the proof checker."""
import hashlib

from holsim.log import EventLog, Counters, canon

PROPERTY = 'C17'
HASHSEED_INDEPENDENT = True

TIERS = {
    'quick': dict(fork=False, worlds=16, runs=4000, batch=200, det_runs=24, soft_timeout=240,
                  variants=['no_use_list_scan', 'merge_ignores_lookup', 'hol_no_comb_merge',
                            'lookup_not_updated', 'explain_drops_comb'],
                  variant_budget=600, min_tests=150),
    'thorough': dict(fork=False, worlds=64, runs=25000, batch=250, det_runs=64, soft_timeout=600,
                     variants=['no_use_list_scan', 'merge_ignores_lookup', 'hol_no_comb_merge',
                               'explain_drops_comb', 'lookup_not_updated', 'class_list_not_moved'],
                     variant_budget=5000, min_tests=300),
}

_state = {}


def warmup():
    from logic import basic
    from kernel import theory  # noqa
    from prover import congc  # noqa
    basic.load_theory('logic_base')
    _state['ready'] = True


def describe():
    return {
        'rule': ('one evaluation = one simulated history: a PRNG-chosen multiset of <=10 equations over <=8 '
                 'constants, a binary symbol f and a unary g (curried terms, depth <=3; core level: flat '
                 'equations a=b / f(a1,a2)=a), delivered in a PRNG-chosen order with duplicates / reversed '
                 'orientation / already-entailed merges and interleaved with add, test, explain, ematch, '
                 'check-all ops, followed by re-delivery of the same multiset in 4 other orders to fresh '
                 'instances. distinct_nontrivial counts distinct event-log digests of histories in which the '
                 'naive closure contains at least one equality that needs the congruence rule.'),
        'real': ['prover/congc.py CongClosure', 'prover/congc.py CongClosureHOL', 'kernel/proofterm.py',
                 'kernel/theory.py check_proof', 'kernel/term.py'],
        'stubs': ['none (oracle: naive fixpoint closure in checks/c17.py)'],
        'assumptions': ['congruence = application congruence on curried terms; abstractions are not generated',
                        'explain() raising an exception is outside the statement (counted as probe explain_raised)',
                        'an exception out of merge/test/add_term on well-formed input counts as a wrong report'],
    }


# ---------------------------------------------------------------- generation

def _gen_term(rng, nconst, depth):
    """term of base type T as JSON: ['c', i] | ['app', ['app', ['f'], a], b] | ['app', ['g'], a]"""
    if depth <= 0 or rng.chance(0.35):
        return ['c', rng.randrange(nconst)]
    if rng.chance(0.75):
        return ['app', ['app', ['f'], _gen_term(rng, nconst, depth - 1)], _gen_term(rng, nconst, depth - 1)]
    return ['app', ['g'], _gen_term(rng, nconst, depth - 1)]


def ttype(t):
    """0 = T, 1 = T=>T, 2 = T=>T=>T"""
    if t[0] == 'c':
        return 0
    if t[0] == 'f':
        return 2
    if t[0] == 'g':
        return 1
    return ttype(t[1]) - 1


def gen(rng, tier):
    level = 'core' if rng.chance(0.4) else 'hol'
    nconst = rng.randint(2, 8)
    cfg = {'level': level, 'nconst': nconst, 'supply_pt': rng.chance(0.85)}
    ops = []
    if level == 'core':
        # names matter only through hashing (ematch iterates a set)
        cfg['names'] = ['%s%d' % (rng.pick('abtxuk'), i) for i in range(nconst + 6)]
        n = len(cfg['names'])
        neq = rng.randint(1, 10)
        eqs = []
        for _ in range(neq):
            if rng.chance(0.55):
                eqs.append({'op': 'mf', 'a': rng.randrange(n), 'b': rng.randrange(n), 'c': rng.randrange(n)})
            else:
                eqs.append({'op': 'mc', 'a': rng.randrange(n), 'b': rng.randrange(n)})
        deliv = list(eqs)
        for _ in range(rng.randint(0, 4)):
            e = dict(rng.pick(eqs))
            if e['op'] == 'mc' and rng.chance(0.5):
                e['a'], e['b'] = e['b'], e['a']
            deliv.append(e)
        rng.shuffle(deliv)
        for e in deliv:
            ops.append(e)
            for _ in range(rng.randint(0, 3)):
                k = rng.random()
                if k < 0.4:
                    ops.append({'op': 'test', 'a': rng.randrange(n), 'b': rng.randrange(n)})
                elif k < 0.75:
                    ops.append({'op': 'explain', 'a': rng.randrange(n), 'b': rng.randrange(n)})
                    if rng.chance(0.7):
                        ops[-1]['ent'] = 1
                elif k < 0.85:
                    ops.append({'op': 'addvar', 'a': rng.randrange(n)})
                else:
                    ops.append({'op': 'ematch', 'p': rng.randrange(4), 'a': rng.randrange(n),
                                'b': rng.randrange(n), 't': rng.randrange(n)})
        ops.append({'op': 'reorder', 'perm_seed': rng.randrange(1 << 30)})
    else:
        pool = []
        for _ in range(rng.randint(4, 14)):
            k = rng.random()
            if k < 0.8:
                pool.append(_gen_term(rng, nconst, rng.randint(0, 3)))
            elif k < 0.9:
                pool.append(['app', ['f'], _gen_term(rng, nconst, rng.randint(0, 2))])
            elif k < 0.96:
                pool.append(['g'])
            else:
                pool.append(['f'])
        cfg['pool'] = pool
        n = len(pool)
        neq = rng.randint(1, 10)
        eqs = [{'op': 'merge', 's': rng.randrange(n), 't': rng.randrange(n)} for _ in range(neq)]
        deliv = list(eqs)
        for _ in range(rng.randint(0, 4)):
            e = dict(rng.pick(eqs))
            if rng.chance(0.5):
                e['rev'] = 1
            deliv.append(e)
        rng.shuffle(deliv)
        for e in deliv:
            ops.append(e)
            for _ in range(rng.randint(0, 3)):
                k = rng.random()
                if k < 0.35:
                    ops.append({'op': 'test', 's': rng.randrange(n), 't': rng.randrange(n)})
                elif k < 0.7:
                    ops.append({'op': 'explain', 's': rng.randrange(n), 't': rng.randrange(n)})
                    if rng.chance(0.7):
                        ops[-1]['ent'] = 1
                elif k < 0.8:
                    ops.append({'op': 'add', 's': rng.randrange(n)})
                elif k < 0.9:
                    ops.append({'op': 'checkall'})
                else:
                    ops.append({'op': 'ematch', 's': rng.randrange(n), 't': rng.randrange(n)})
        ops.append({'op': 'checkall'})
        ops.append({'op': 'reorder', 'perm_seed': rng.randrange(1 << 30)})
    return cfg, ops


def shrink_op(op):
    out = []
    if op.get('ent'):
        o = dict(op)
        del o['ent']
        out.append(o)
    for k in ('a', 'b', 'c', 's', 't'):
        if k in op and op[k] > 0:
            o = dict(op)
            o[k] = 0
            out.append(o)
    if op.get('rev'):
        o = dict(op)
        del o['rev']
        out.append(o)
    return out


# ---------------------------------------------------------------- naive closures

class UF:
    def __init__(self):
        self.p = {}

    def find(self, x):
        p = self.p
        if x not in p:
            p[x] = x
            return x
        while p[x] != x:
            p[x] = p[p[x]]
            x = p[x]
        return x

    def union(self, a, b):
        a, b = self.find(a), self.find(b)
        if a != b:
            self.p[a] = b
            return True
        return False


def naive_core(const_eqs, comb_eqs, congruence=True):
    uf = UF()
    for a, b in const_eqs:
        uf.union(a, b)
    changed = congruence
    while changed:
        changed = False
        for i in range(len(comb_eqs)):
            (a1, a2), a = comb_eqs[i]
            for j in range(i + 1, len(comb_eqs)):
                (b1, b2), b = comb_eqs[j]
                if uf.find(a1) == uf.find(b1) and uf.find(a2) == uf.find(b2):
                    if uf.union(a, b):
                        changed = True
    return uf


def tup(t):
    return tuple(tup(x) if isinstance(x, list) else x for x in t)


def subterms(t, acc):
    if t in acc:
        return
    acc.add(t)
    if t[0] == 'app':
        subterms(t[1], acc)
        subterms(t[2], acc)


def naive_hol(eqs, universe, congruence=True):
    uf = UF()
    for s, t in eqs:
        uf.union(s, t)
    apps = sorted(x for x in universe if x[0] == 'app')
    changed = congruence
    while changed:
        changed = False
        for i in range(len(apps)):
            x = apps[i]
            for j in range(i + 1, len(apps)):
                y = apps[j]
                if uf.find(x) != uf.find(y) and uf.find(x[1]) == uf.find(y[1]) and \
                        uf.find(x[2]) == uf.find(y[2]):
                    uf.union(x, y)
                    changed = True
    return uf


# ---------------------------------------------------------------- execution

class Violation(Exception):
    def __init__(self, oracle, detail, sig=None):
        Exception.__init__(self, oracle)
        self.oracle = oracle
        self.detail = detail
        self.sig = sig or oracle


def execute(cfg, ops, env):
    log = EventLog()
    ctr = Counters()
    res = {'violation': None, 'known_hits': {}, 'nops': 0, 'state_keys': []}
    nontrivial = [False]
    try:
        if cfg['level'] == 'core':
            _exec_core(cfg, ops, log, ctr, nontrivial)
        else:
            _exec_hol(cfg, ops, log, ctr, nontrivial)
    except Violation as v:
        res['violation'] = {'oracle': v.oracle, 'detail': v.detail, 'sig': v.sig, 'event_seq': log.n}
    res['nops'] = ctr.get('ops', 0)
    res['digest'] = log.digest()
    res['counters'] = ctr
    res['events'] = log.events[:12]
    if nontrivial[0]:
        res['state_keys'] = [log.digest()[:16]]
    return res


def _exec_core(cfg, ops, log, ctr, nontrivial):
    from prover import congc
    names = cfg['names']
    n = len(names)
    cc = congc.CongClosure()
    const_eqs = []
    comb_eqs = []
    known = []

    def nm(i):
        return names[i % n]

    def note(x):
        if x not in known:
            known.append(x)

    def check_all(seq):
        uf = naive_core(const_eqs, comb_eqs)
        for i in range(len(known)):
            for j in range(i, len(known)):
                a, b = known[i], known[j]
                want = uf.find(a) == uf.find(b)
                try:
                    got = cc.test(a, b)
                except Exception as e:
                    raise Violation('core.test-raised', 'test(%s,%s) raised %r after %d ops' % (a, b, e, seq),
                                    'core.test-raised:' + type(e).__name__)
                if got != want:
                    raise Violation('core.test-vs-naive',
                                    'test(%s,%s)=%s, naive closure says %s; const_eqs=%s comb_eqs=%s' % (
                                        a, b, got, want, const_eqs, comb_eqs),
                                    'core.test-vs-naive:' + ('unsound' if got else 'incomplete'))
        if not nontrivial[0]:
            uf0 = naive_core(const_eqs, comb_eqs, congruence=False)
            for i in range(len(known)):
                for j in range(i + 1, len(known)):
                    if (uf.find(known[i]) == uf.find(known[j])) != (uf0.find(known[i]) == uf0.find(known[j])):
                        nontrivial[0] = True
                        return

    for seq, op in enumerate(ops):
        ctr.inc('ops')
        k = op['op']
        ctr.inc('op_' + k)
        if k == 'mc':
            a, b = nm(op['a']), nm(op['b'])
            dup = (a, b) in const_eqs or (b, a) in const_eqs
            ent = cc.test(a, b) if a in known and b in known else False
            if dup:
                ctr.inc('fault_duplicate_delivery')
            elif ent:
                ctr.inc('fault_already_entailed_merge')
            try:
                cc.merge(a, b)
            except Exception as e:
                raise Violation('core.merge-raised', 'merge(%s,%s) raised %r' % (a, b, e),
                                'core.merge-raised:' + type(e).__name__)
            const_eqs.append((a, b))
            note(a)
            note(b)
            log.add(seq, 'mc', a, b)
        elif k == 'mf':
            a1, a2, a = nm(op['a']), nm(op['b']), nm(op['c'])
            if ((a1, a2), a) in comb_eqs:
                ctr.inc('fault_duplicate_delivery')
            try:
                cc.merge((a1, a2), a)
            except Exception as e:
                raise Violation('core.merge-raised', 'merge((%s,%s),%s) raised %r' % (a1, a2, a, e),
                                'core.merge-raised:' + type(e).__name__)
            comb_eqs.append(((a1, a2), a))
            note(a1)
            note(a2)
            note(a)
            log.add(seq, 'mf', a1, a2, a)
        elif k == 'addvar':
            a = nm(op['a'])
            cc.add_var(a)
            note(a)
            log.add(seq, 'addvar', a)
        elif k == 'test':
            if not known:
                continue
            a, b = known[op['a'] % len(known)], known[op['b'] % len(known)]
            log.add(seq, 'test', a, b, cc.test(a, b))
        elif k == 'explain':
            if not known:
                continue
            a, b = known[op['a'] % len(known)], known[op['b'] % len(known)]
            uf = naive_core(const_eqs, comb_eqs)
            if op.get('ent'):
                cands = [(x, y) for x in known for y in known if x != y and uf.find(x) == uf.find(y)]
                if cands:
                    a, b = cands[(op['a'] * 31 + op['b']) % len(cands)]
            entailed = uf.find(a) == uf.find(b)
            try:
                ex = cc.explain(a, b)
            except Exception as e:
                ctr.inc('probe_explain_raised_entailed' if entailed else 'explain_raised_not_entailed')
                log.add(seq, 'explain', a, b, 'raised', type(e).__name__)
                continue
            ctr.inc('explain_returned')
            used_c, used_f = [], []
            for path in ex.values():
                for lab in path:
                    if lab[0] == congc.EQ_CONST:
                        e = (lab[1], lab[2])
                        if e not in const_eqs:
                            raise Violation('core.explain-uses-unmerged',
                                            'explain(%s,%s) cites %s = %s which was never merged' % (a, b, e[0], e[1]),
                                            'core.explain-uses-unmerged')
                        used_c.append(e)
                    else:
                        for e in (lab[1], lab[2]):
                            e = (tuple(e[0]), e[1])
                            if e not in comb_eqs:
                                raise Violation('core.explain-uses-unmerged',
                                                'explain(%s,%s) cites f%s = %s which was never merged' % (a, b, e[0], e[1]),
                                                'core.explain-uses-unmerged')
                            used_f.append(e)
            uf2 = naive_core(used_c, used_f)
            if uf2.find(a) != uf2.find(b):
                raise Violation('core.explain-not-entailing',
                                'explain(%s,%s) returned %s which does not entail the pair (entailed by all merges: %s)' % (
                                    a, b, sorted(map(str, set(used_c + used_f))), entailed),
                                'core.explain-not-entailing')
            log.add(seq, 'explain', a, b, len(used_c), len(used_f))
        elif k == 'ematch':
            if not known:
                continue
            t = known[op['t'] % len(known)]
            pats = ['?x', ('?x', '?y'), (known[op['a'] % len(known)], '?x'), ('?x', known[op['b'] % len(known)])]
            pat = pats[op['p'] % 4]
            try:
                insts = cc.ematch(pat, t)
            except Exception as e:
                ctr.inc('probe_ematch_raised')
                continue
            ctr.inc('ematch_calls')
            # probe only: every returned instantiation maps to representatives
            log.add(seq, 'ematch', str(pat), t, len(insts))
        elif k == 'reorder':
            from holsim.rng import SimRng
            prng = SimRng('c17-perm', op['perm_seed'])
            allq = [('c', e) for e in const_eqs] + [('f', e) for e in comb_eqs]
            uf = naive_core(const_eqs, comb_eqs)
            for p in range(4):
                order = list(allq)
                prng.shuffle(order)
                c2 = congc.CongClosure()
                for x in known:
                    if prng.chance(0.3):
                        c2.add_var(x)
                for kind, e in order:
                    if kind == 'c':
                        if prng.chance(0.3):
                            c2.merge(e[1], e[0])
                        else:
                            c2.merge(e[0], e[1])
                    else:
                        c2.merge(e[0], e[1])
                for x in known:
                    c2.add_var(x)
                for i in range(len(known)):
                    for j in range(i + 1, len(known)):
                        a, b = known[i], known[j]
                        if c2.test(a, b) != (uf.find(a) == uf.find(b)) or c2.test(a, b) != cc.test(a, b):
                            raise Violation('core.order-dependence',
                                            'delivery order %d: test(%s,%s)=%s, first order %s, naive %s' % (
                                                p, a, b, c2.test(a, b), cc.test(a, b), uf.find(a) == uf.find(b)),
                                            'core.order-dependence')
                ctr.inc('reorders')
            log.add(seq, 'reorder', len(allq))
            continue
        check_all(seq)
    # internal-invariant probes (never verdicts)
    try:
        if not cc.pending.empty():
            ctr.inc('probe_pending_nonempty')
        for x, r in cc.rep.items():
            if cc.rep[r] != r:
                ctr.inc('probe_rep_not_idempotent')
    except Exception:
        ctr.inc('probe_unavailable')


def _exec_hol(cfg, ops, log, ctr, nontrivial):
    from prover import congc
    from kernel.type import TVar, TFun
    from kernel.term import Var, Comb, Eq
    from kernel.proofterm import ProofTerm
    from kernel import theory
    T = TVar('a')
    consts = [Var('c%d' % i, T) for i in range(cfg['nconst'])]
    fsym = Var('f', TFun(T, T, T))
    gsym = Var('g', TFun(T, T))
    pool_json = cfg['pool']
    pool = [tup(t) for t in pool_json]
    n = len(pool)
    by_type = {}
    for i, t in enumerate(pool):
        by_type.setdefault(ttype(t), []).append(i)

    cache = {}

    def build(t):
        # fresh objects on purpose from time to time would also be fine; equal terms hash equal
        if t in cache:
            return cache[t]
        if t[0] == 'c':
            r = consts[t[1] % len(consts)]
        elif t[0] == 'f':
            r = fsym
        elif t[0] == 'g':
            r = gsym
        else:
            r = Comb(build(t[1]), build(t[2]))
        cache[t] = r
        return r

    def mate(i, j):
        """pick a pool term of the same type as pool[i]"""
        cands = by_type[ttype(pool[i])]
        return pool[cands[j % len(cands)]]

    hc = congc.CongClosureHOL()
    delivered = []
    allowed_hyps = []
    universe = set()

    memo = {}

    def closure(extra=()):
        """naive closure of the delivered equations over the universe extended by `extra`
        (a bigger universe never changes the answer for terms already in it)"""
        for t in extra:
            subterms(t, universe)
        key = (len(delivered), len(universe))
        if memo.get('key') != key:
            memo['key'] = key
            memo['uf'] = naive_hol(delivered, universe)
        return memo['uf'], universe

    def do_test(s, t, seq):
        uf, _ = closure((s, t))
        want = uf.find(s) == uf.find(t)
        try:
            got = hc.test(build(s), build(t))
        except Exception as e:
            raise Violation('hol.test-raised', 'test raised %r on %s / %s' % (e, s, t),
                            'hol.test-raised:' + type(e).__name__)
        subterms(s, universe)
        subterms(t, universe)
        if got != want:
            raise Violation('hol.test-vs-naive',
                            'test(%s, %s)=%s but naive closure of %d delivered equations says %s; delivered=%s' % (
                                build(s), build(t), got, len(delivered), want,
                                [(str(build(a)), str(build(b))) for a, b in delivered]),
                            'hol.test-vs-naive:' + ('unsound' if got else 'incomplete'))
        return got

    for seq, op in enumerate(ops):
        ctr.inc('ops')
        k = op['op']
        ctr.inc('op_' + k)
        if k == 'merge':
            s = pool[op['s'] % n]
            t = mate(op['s'] % n, op['t'])
            if op.get('rev'):
                s, t = t, s
            if (s, t) in delivered or (t, s) in delivered:
                ctr.inc('fault_duplicate_delivery')
            else:
                uf, _ = closure((s, t))
                if uf.find(s) == uf.find(t):
                    ctr.inc('fault_already_entailed_merge')
            S, Tm = build(s), build(t)
            pt = ProofTerm.assume(Eq(S, Tm)) if cfg.get('supply_pt', True) else None
            try:
                hc.merge(S, Tm, pt=pt)
            except Exception as e:
                raise Violation('hol.merge-raised', 'merge(%s, %s) raised %r' % (S, Tm, e),
                                'hol.merge-raised:' + type(e).__name__)
            delivered.append((s, t))
            allowed_hyps.append(Eq(S, Tm))
            subterms(s, universe)
            subterms(t, universe)
            log.add(seq, 'merge', str(S), str(Tm))
        elif k == 'add':
            s = pool[op['s'] % n]
            try:
                hc.add_term(build(s))
            except Exception as e:
                raise Violation('hol.add-raised', 'add_term(%s) raised %r' % (build(s), e),
                                'hol.add-raised:' + type(e).__name__)
            subterms(s, universe)
            log.add(seq, 'add', str(build(s)))
        elif k == 'test':
            s = pool[op['s'] % n]
            t = mate(op['s'] % n, op['t'])
            log.add(seq, 'test', str(build(s)), str(build(t)), do_test(s, t, seq))
        elif k == 'checkall':
            cnt = 0
            for ty, idxs in sorted(by_type.items()):
                for i in range(len(idxs)):
                    for j in range(i, len(idxs)):
                        do_test(pool[idxs[i]], pool[idxs[j]], seq)
                        cnt += 1
            log.add(seq, 'checkall', cnt)
            if not nontrivial[0]:
                uf, u = closure()
                uf0 = naive_hol(delivered, u, congruence=False)
                us = sorted(u)
                for i in range(len(us)):
                    for j in range(i + 1, len(us)):
                        if (uf.find(us[i]) == uf.find(us[j])) != (uf0.find(us[i]) == uf0.find(us[j])):
                            nontrivial[0] = True
                            break
                    if nontrivial[0]:
                        break
        elif k == 'explain':
            s = pool[op['s'] % n]
            t = mate(op['s'] % n, op['t'])
            if op.get('ent'):
                uf, _ = closure(pool)
                cands = [(a, b) for ty, idxs in sorted(by_type.items()) for a in sorted(set(pool[i] for i in idxs))
                         for b in sorted(set(pool[i] for i in idxs)) if a != b and uf.find(a) == uf.find(b)]
                if cands:
                    s, t = cands[(op['s'] * 31 + op['t']) % len(cands)]
            uf, _ = closure((s, t))
            entailed = uf.find(s) == uf.find(t)
            S, Tm = build(s), build(t)
            try:
                pt = hc.explain(S, Tm)
            except Exception as e:
                subterms(s, universe)
                subterms(t, universe)
                ctr.inc('probe_explain_raised_entailed' if entailed else 'explain_raised_not_entailed')
                log.add(seq, 'explain', str(S), str(Tm), 'raised', type(e).__name__)
                continue
            subterms(s, universe)
            subterms(t, universe)
            ctr.inc('explain_returned')
            if not cfg.get('supply_pt', True):
                # explanation consists of sorry leaves; verdict: leaves are merged equations
                log.add(seq, 'explain', str(S), str(Tm), 'nopt')
                gaps = [g.prop for g in pt.gaps] if hasattr(pt, 'gaps') else []
                for g in gaps:
                    if g not in allowed_hyps:
                        raise Violation('hol.explain-uses-unmerged',
                                        'explanation of %s = %s has a gap %s that is not a merged equation' % (S, Tm, g),
                                        'hol.explain-uses-unmerged')
                if pt.th.prop != Eq(S, Tm):
                    raise Violation('hol.explain-wrong-theorem',
                                    'explain(%s, %s) returned a proof term of %s' % (S, Tm, pt.th),
                                    'hol.explain-wrong-theorem')
                continue
            if pt.th.prop != Eq(S, Tm):
                raise Violation('hol.explain-wrong-theorem',
                                'explain(%s, %s) returned a proof term of %s' % (S, Tm, pt.th),
                                'hol.explain-wrong-theorem')
            for h in pt.th.hyps:
                if h not in allowed_hyps:
                    raise Violation('hol.explain-uses-unmerged',
                                    'explanation of %s = %s has hypothesis %s which was never merged' % (S, Tm, h),
                                    'hol.explain-uses-unmerged')
            try:
                th = theory.check_proof(pt.export(), no_gaps=True)
            except Exception as e:
                raise Violation('hol.explain-rejected-by-checker',
                                'explanation of %s = %s is rejected: %r' % (S, Tm, e),
                                'hol.explain-rejected-by-checker:' + type(e).__name__)
            if th.prop != Eq(S, Tm) or any(h not in allowed_hyps for h in th.hyps):
                raise Violation('hol.explain-wrong-theorem',
                                'checked explanation proves %s, expected %s = %s from merged equations' % (th, S, Tm),
                                'hol.explain-wrong-theorem')
            # the hypotheses used must alone entail the pair
            used = [(a, b) for (a, b), h in zip(delivered, allowed_hyps) if h in th.hyps]
            u2 = set()
            for a, b in used:
                subterms(a, u2)
                subterms(b, u2)
            subterms(s, u2)
            subterms(t, u2)
            uf2 = naive_hol(used, u2)
            if uf2.find(s) != uf2.find(t):
                raise Violation('hol.explain-not-entailing',
                                'hypotheses %s of the explanation do not entail %s = %s' % (
                                    [str(h) for h in th.hyps], S, Tm), 'hol.explain-not-entailing')
            ctr.inc('explain_checked')
            log.add(seq, 'explain', str(S), str(Tm), len(th.hyps))
        elif k == 'ematch':
            s = pool[op['s'] % n]
            t = pool[op['t'] % n]
            try:
                hc.ematch(build(s), build(t))  # s has no schematic variables: degenerate probe
                ctr.inc('ematch_calls')
            except Exception:
                ctr.inc('probe_ematch_raised')
            subterms(t, universe)
        elif k == 'reorder':
            from holsim.rng import SimRng
            prng = SimRng('c17-perm', op['perm_seed'])
            uf, u = closure()
            qs = sorted(x for x in u)
            for p in range(4):
                order = list(delivered)
                prng.shuffle(order)
                h2 = congc.CongClosureHOL()
                for a, b in order:
                    if prng.chance(0.3):
                        a, b = b, a
                    if prng.chance(0.2):
                        h2.add_term(build(prng.pick(qs)))
                    h2.merge(build(a), build(b))
                for i in range(len(qs)):
                    for j in range(i + 1, len(qs)):
                        a, b = qs[i], qs[j]
                        if ttype(a) != ttype(b):
                            continue
                        got = h2.test(build(a), build(b))
                        if got != (uf.find(a) == uf.find(b)):
                            raise Violation('hol.order-dependence',
                                            'delivery order %d: test(%s, %s)=%s, naive closure %s' % (
                                                p, build(a), build(b), got, uf.find(a) == uf.find(b)),
                                            'hol.order-dependence')
                ctr.inc('reorders')
            log.add(seq, 'reorder', len(delivered))


# ---------------------------------------------------------------- sensitivity variants

def _v_no_use_list_scan():
    from prover import congc
    from holsim.seams import patch_source
    patch_source(congc.CongClosure, '_propagate',
                 "if (rep_c1, rep_c2) in self.lookup:", "if False:")


def _v_merge_ignores_lookup():
    from prover import congc
    from holsim.seams import patch_source
    patch_source(congc.CongClosure, 'merge',
                 "if (rep_a1, rep_a2) in self.lookup:", "if False:")


def _v_hol_no_comb_merge():
    from prover import congc
    from holsim.seams import patch_source
    patch_source(congc.CongClosureHOL, 'add_term',
                 "self.closure.merge((fun_var, arg_var), t_var)",
                 "(self.closure.merge((fun_var, arg_var), t_var) if self.num_consts % 7 else None)")


def _v_explain_drops_comb():
    from prover import congc
    from holsim.seams import patch_source
    patch_source(congc.CongClosure, 'explain',
                 "self.explain(a2, b2, res=res)", "pass")
    patch_source(congc.CongClosureHOL, 'explain',
                 "eq_pt2 = get_proofterm(a2, b2) if a2 != b2 else ProofTerm.reflexive(self.index[a2])",
                 "eq_pt2 = get_proofterm(a2, b2) if (a2 != b2 and (a2, b2) in explain) else ProofTerm.reflexive(self.index[a2])")


def _v_lookup_not_updated():
    from prover import congc
    from holsim.seams import patch_source
    patch_source(congc.CongClosure, '_propagate',
                 "                        self.lookup[(rep_c1, rep_c2)] = eq\n", "")


def _v_class_list_not_moved():
    from prover import congc
    from holsim.seams import patch_source
    patch_source(congc.CongClosure, '_propagate',
                 "self.class_list[rep_b] += self.class_list[rep_a]",
                 "self.class_list[rep_b] += self.class_list[rep_a][:1]")


VARIANTS = {
    'no_use_list_scan': _v_no_use_list_scan,
    'merge_ignores_lookup': _v_merge_ignores_lookup,
    'hol_no_comb_merge': _v_hol_no_comb_merge,
    'explain_drops_comb': _v_explain_drops_comb,
    'lookup_not_updated': _v_lookup_not_updated,
    'class_list_not_moved': _v_class_list_not_moved,
}
