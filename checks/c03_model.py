"""Independent reference model for kernel terms and types (C03).

Written from the textbook definitions; shares no code with holpy.

types : ('stv', name) | ('tv', name) | ('tc', name, (args...))
terms : ('sv', name, T) | ('v', name, T) | ('c', name, T) | ('app', f, a)
        | ('abs', name, T, body) | ('b', n)
"""
import itertools

from holsim.rng import SimRng

BOOL = ('tc', 'bool', ())


def fun(a, b):
    return ('tc', 'fun', (a, b))


def is_fun(T):
    return T[0] == 'tc' and T[1] == 'fun' and len(T[2]) == 2


class Reject(Exception):
    """the reference says the operation is not defined on this input"""


# ------------------------------------------------------------------ types

def t_subst(T, ti):
    if T[0] == 'stv':
        return ti.get(T[1], T)
    if T[0] == 'tv':
        return T
    return ('tc', T[1], tuple(t_subst(a, ti) for a in T[2]))


def t_match(p, T, ti):
    """match pattern p against T, extending ti (dict) in place; Reject on failure"""
    if p[0] == 'stv':
        if p[1] in ti:
            if ti[p[1]] != T:
                raise Reject('type match')
        else:
            ti[p[1]] = T
    elif p[0] == 'tv':
        if p != T:
            raise Reject('type match')
    else:
        if T[0] != 'tc' or T[1] != p[1] or len(T[2]) != len(p[2]):
            raise Reject('type match')
        for a, b in zip(p[2], T[2]):
            t_match(a, b, ti)


def t_size(T):
    if T[0] in ('stv', 'tv'):
        return 1
    return 1 + sum(t_size(a) for a in T[2])


def t_stvars(T, acc):
    if T[0] == 'stv':
        if T[1] not in acc:
            acc.append(T[1])
    elif T[0] == 'tc':
        for a in T[2]:
            t_stvars(a, acc)
    return acc


# ------------------------------------------------------------------ terms

def strip(m):
    """alpha-invariant key: drop suggested binder names"""
    k = m[0]
    if k == 'app':
        return ('app', strip(m[1]), strip(m[2]))
    if k == 'abs':
        return ('abs', m[2], strip(m[3]))
    return m


def size(m):
    k = m[0]
    if k == 'app':
        return 1 + size(m[1]) + size(m[2])
    if k == 'abs':
        return 1 + size(m[3])
    return 1


def type_of(m, ctx=()):
    """full type check; Reject when ill-typed or open beyond ctx"""
    k = m[0]
    if k in ('sv', 'v', 'c'):
        return m[2]
    if k == 'b':
        if m[1] >= len(ctx):
            raise Reject('open term')
        return ctx[m[1]]
    if k == 'abs':
        return fun(m[2], type_of(m[3], (m[2],) + tuple(ctx)))
    f = type_of(m[1], ctx)
    a = type_of(m[2], ctx)
    if not is_fun(f) or f[2][0] != a:
        raise Reject('ill-typed application')
    return f[2][1]


def is_open(m, lev=0):
    k = m[0]
    if k == 'b':
        return m[1] >= lev
    if k == 'app':
        return is_open(m[1], lev) or is_open(m[2], lev)
    if k == 'abs':
        return is_open(m[3], lev + 1)
    return False


def subst_type(m, ti):
    k = m[0]
    if k in ('sv', 'v', 'c'):
        return (k, m[1], t_subst(m[2], ti))
    if k == 'app':
        return ('app', subst_type(m[1], ti), subst_type(m[2], ti))
    if k == 'abs':
        return ('abs', m[1], t_subst(m[2], ti), subst_type(m[3], ti))
    return m


def lift(m, inc, lev=0):
    k = m[0]
    if k == 'b':
        return ('b', m[1] + inc) if m[1] >= lev else m
    if k == 'app':
        return ('app', lift(m[1], inc, lev), lift(m[2], inc, lev))
    if k == 'abs':
        return ('abs', m[1], m[2], lift(m[3], inc, lev + 1))
    return m


def _sb(b, s, n):
    k = b[0]
    if k == 'b':
        if b[1] == n:
            return lift(s, n)
        if b[1] > n:
            return ('b', b[1] - 1)
        return b
    if k == 'app':
        return ('app', _sb(b[1], s, n), _sb(b[2], s, n))
    if k == 'abs':
        return ('abs', b[1], b[2], _sb(b[3], s, n + 1))
    return b


def subst_bound(m, s):
    if m[0] != 'abs':
        raise Reject('not an abstraction')
    return _sb(m[3], s, 0)


class OutOfFuel(Exception):
    pass


def beta_norm(m, fuel):
    """normal-order reduction to beta-normal form; fuel = [remaining contractions]"""
    k = m[0]
    if k == 'abs':
        return ('abs', m[1], m[2], beta_norm(m[3], fuel))
    if k != 'app':
        return m
    f = beta_norm(m[1], fuel)
    if f[0] == 'abs':
        fuel[0] -= 1
        if fuel[0] < 0:
            raise OutOfFuel()
        r = _sb(f[3], m[2], 0)
        if size(r) > 3000:
            raise OutOfFuel()       # size explosion: outside the bounds of this check
        return beta_norm(r, fuel)
    return ('app', f, beta_norm(m[2], fuel))


def abstract_over(m, var, n=0):
    """replace free occurrences of var (('v'|'sv', name, T)) by Bound(n)"""
    k = m[0]
    if k in ('v', 'sv'):
        if k == var[0] and m[1] == var[1]:
            if m[2] != var[2]:
                raise Reject('abstract_over: wrong type')
            return ('b', n)
        return m
    if k == 'app':
        return ('app', abstract_over(m[1], var, n), abstract_over(m[2], var, n))
    if k == 'abs':
        return ('abs', m[1], m[2], abstract_over(m[3], var, n + 1))
    return m


def svars(m, acc):
    k = m[0]
    if k == 'sv':
        if m not in acc:
            acc.append(m)
    elif k == 'app':
        svars(m[1], acc)
        svars(m[2], acc)
    elif k == 'abs':
        svars(m[3], acc)
    return acc


def subst(m, inst):
    """inst = {'ty': {name: T}, 's': {name: term}, 'v': {name: term}, 'abs': {name: name}}.
    Schematic variables are matched by name; their types are matched against the types of
    the supplied terms first (extending inst['ty']), then types and terms are instantiated
    simultaneously."""
    ti = dict(inst.get('ty', {}))
    for v in svars(m, []):
        if v[1] in inst.get('s', {}):
            t_match(v[2], type_of_loose(inst['s'][v[1]]), ti)
    m2 = subst_type(m, ti) if ti else m

    def rec(t):
        k = t[0]
        if k == 'sv':
            return inst.get('s', {}).get(t[1], t)
        if k == 'v':
            return inst.get('v', {}).get(t[1], t)
        if k == 'app':
            return ('app', rec(t[1]), rec(t[2]))
        if k == 'abs':
            return ('abs', inst.get('abs', {}).get(t[1], t[1]), t[2], rec(t[3]))
        return t
    return rec(m2), ti


def type_of_loose(m):
    """type with minimal checking (what holpy's get_type computes); Reject on open terms"""
    def rec(t, ctx):
        k = t[0]
        if k in ('sv', 'v', 'c'):
            return t[2]
        if k == 'b':
            if t[1] >= len(ctx):
                raise Reject('open term')
            return ctx[t[1]]
        if k == 'abs':
            return fun(t[2], rec(t[3], (t[2],) + ctx))
        f = rec(t[1], ctx)
        if not is_fun(f):
            raise Reject('function type expected')
        return f[2][1]
    return rec(m, ())


def atoms(m, acc):
    k = m[0]
    if k in ('sv', 'v', 'c'):
        acc.add(m)
    elif k == 'app':
        atoms(m[1], acc)
        atoms(m[2], acc)
    elif k == 'abs':
        atoms(m[3], acc)
    return acc


# ------------------------------------------------------------------ finite standard models

class TooBig(Exception):
    pass


class Model:
    """A finite standard model: sorts get PRNG-chosen sizes in 1..2, bool is {0,1}, function
    types are full function spaces (values = tuples indexed by the domain enumeration),
    `equals` is real equality, every other atom is a free symbol with a PRNG-chosen value."""
    LIMIT = 300
    EVAL_BUDGET = 60000

    def __init__(self, seed):
        self.seed = seed
        self._car = {}
        self._idx = {}

    def carrier(self, T):
        c = self._car.get(T)
        if c is not None:
            return c
        if T == BOOL:
            c = [0, 1]
        elif is_fun(T):
            d = self.carrier(T[2][0])
            r = self.carrier(T[2][1])
            if len(r) ** len(d) > self.LIMIT:
                raise TooBig()
            c = list(itertools.product(r, repeat=len(d)))
        else:
            n = 1 + SimRng('c03-sort', self.seed, T).randrange(2)
            c = list(range(n))
        self._car[T] = c
        self._idx[T] = {v: i for i, v in enumerate(c)}
        return c

    def index(self, T, v):
        self.carrier(T)
        return self._idx[T][v]

    def atom(self, k, name, T):
        if k == 'c' and name == 'equals' and is_fun(T) and is_fun(T[2][1]) and T[2][0] == T[2][1][2][0] \
                and T[2][1][2][1] == BOOL:
            d = self.carrier(T[2][0])
            self.carrier(T)
            return tuple(tuple(1 if x == y else 0 for y in d) for x in d)
        c = self.carrier(T)
        return c[SimRng('c03-atom', self.seed, k, name, T).randrange(len(c))]

    def eval(self, m, ti=None, sval=None, vval=None):
        """value of a closed well-typed term.  With ti/sval/vval: value of m under the
        instantiation (types substituted at the leaves, instantiated variables looked up)"""
        ti = ti or {}
        steps = [0]
        budget = self.EVAL_BUDGET

        def rec(t, env):
            steps[0] += 1
            if steps[0] > budget:
                raise TooBig()      # nested binders over large carriers: skip this model, never a verdict
            k = t[0]
            if k == 'b':
                return env[t[1]]
            if k in ('sv', 'v', 'c'):
                if k == 'sv' and sval and t[1] in sval:
                    return sval[t[1]]
                if k == 'v' and vval and t[1] in vval:
                    return vval[t[1]]
                T = t_subst(t[2], ti) if ti else t[2]
                return self.atom(k, t[1], T), T
            if k == 'abs':
                T = t_subst(t[2], ti) if ti else t[2]
                vals = []
                RT = None
                for x in self.carrier(T):
                    v, RT = rec(t[3], [(x, T)] + env)
                    vals.append(v)
                FT = fun(T, RT)
                self.carrier(FT)
                return tuple(vals), FT
            f, FT = rec(t[1], env)
            a, AT = rec(t[2], env)
            return f[self.index(AT, a)], FT[2][1]
        return rec(m, [])
