"""C15 - SAT solving and CNF encoding give correct verdicts with valid certificates.

Simulated system: prover/sat.py (real code), prover/tseitin.py + logic.conj_norm + the
proof checker as a producer of CNFs.  The schedule nobody controls in deployment is the
iteration order of `set`s of strings (decision order `for var in variables`, literal
order of resolvents `list(set(...))`): it is fixed by PYTHONHASHSEED (one per world)
and the variable names (chosen by the simulator; for <=6 variables a naming is searched
that realises a PRNG-drawn target decision order).  Non-termination is decided
deterministically by an event budget on the solver's debug seam and (sampled) by a
sys.settrace line budget.  Oracles: brute force, own model checker for assignments,
own replay of the resolution trace, truth tables + kernel checker for Tseitin."""
import itertools
import sys

from holsim.log import EventLog, Counters
from holsim.rng import SimRng

PROPERTY = 'C15'
HASHSEED_INDEPENDENT = False   # the decision order IS the hash-seed dependent schedule

_VQ = ['resolution_keeps_pivot', 'backjump_one_too_high', 'unit_wrong_polarity', 'sat_reports_unassigned_conflict',
       'tseitin_drops_clause', 'dup_literal_hang']
TIERS = {
    'quick': dict(fork=False, worlds=16, runs=1200, batch=200, det_runs=32, soft_timeout=300,
                  variants=_VQ, variant_budget=2500, min_tests=200),
    'thorough': dict(fork=False, worlds=64, runs=15000, batch=500, det_runs=64, soft_timeout=900,
                     variants=_VQ + ['proof_omits_first', 'analyze_stops_early'],
                     variant_budget=30000, min_tests=400, sweep=True),
}


def warmup():
    from logic import basic
    from prover import sat, tseitin  # noqa
    from kernel import theory  # noqa
    basic.load_theory('sat')


def describe():
    return {
        'rule': ('one evaluation = one solver execution under a simulator-chosen decision schedule: a CNF over <=12 '
                 'variables / <=60 clauses (empty CNF, empty / unit / duplicate-literal / tautological / repeated '
                 'clauses, a band near the 3-SAT threshold) or the Tseitin CNF of a random propositional formula '
                 '(<=6 atoms, depth <=4); variable names are drawn by the PRNG and, for <=6 variables, searched so '
                 'that the set iteration order (= decision priority) equals a PRNG-drawn permutation under the '
                 "world's PYTHONHASHSEED. distinct_nontrivial counts distinct (CNF, decision/conflict sequence) "
                 'digests with at least one conflict (backjump) in them. Thorough adds the systematic sweep of all '
                 'clause multisets over <=3 variables / <=4 clauses (up to variable renaming) under all 6 decision orders.'),
        'real': ['prover/sat.py solve_cnf', 'prover/tseitin.py encode / convert_cnf', 'logic/logic.py conj_norm',
                 'kernel/theory.py check_proof'],
        'stubs': ['print() as seen by prover/sat.py (debug seam -> event counter)', 'sat/zchaff.py and prover/proofrec.py are not run'],
        'assumptions': ['termination budget: 5000 + 4000*vars solver debug events (about 200x the largest count observed on the unchanged tree, '
                        'reported in counters.max_events) and 400x that many traced lines in the traced share of runs',
                        'a resolution step on x is valid iff one clause contains x only positively and the other only negatively'],
    }


# ---------------------------------------------------------------- generation

def gen_cnf(rng, nvars, nclauses, style):
    cnf = []
    wide = rng.chance(0.3)
    for _ in range(nclauses):
        if style == 'threshold':
            width = 3 if nvars >= 3 else nvars
        elif wide:
            width = rng.pick([1, 2, 3, 3, 4, 5, 6])
        else:
            width = rng.pick([1, 2, 2, 2, 3, 3, 3, 4])
        cnf.append([[rng.randrange(nvars), rng.chance(0.5)] for _ in range(width)])
    # unusual but legal inputs, a few per CNF at most (so that most runs still make real progress)
    if cnf and rng.chance(0.2):
        for _ in range(rng.randint(1, 2)):
            c = rng.pick(cnf)
            if c:
                c.insert(rng.randrange(len(c) + 1), list(rng.pick(c)))      # duplicate literal
    if cnf and rng.chance(0.15):
        c = rng.pick(cnf)
        if c:
            l = rng.pick(c)
            c.insert(rng.randrange(len(c) + 1), [l[0], not l[1]])            # tautological clause
    if cnf and rng.chance(0.15):
        cnf.insert(rng.randrange(len(cnf) + 1), [list(l) for l in rng.pick(cnf)])   # repeated clause
    if rng.chance(0.05):
        cnf.insert(rng.randrange(len(cnf) + 1), [])                          # empty clause
    return cnf


def gen_formula(rng, natoms, depth):
    if depth <= 0 or rng.chance(0.25):
        return ['atom', rng.randrange(natoms)]
    k = rng.pick(['not', 'and', 'or', 'imp', 'eq', 'and', 'or'])
    if k == 'not':
        return ['not', gen_formula(rng, natoms, depth - 1)]
    return [k, gen_formula(rng, natoms, depth - 1), gen_formula(rng, natoms, depth - 1)]


def gen(rng, tier):
    k = rng.random()
    cfg = {'name_seed': rng.randrange(1 << 30), 'trace': rng.chance(0.15)}
    if k < 0.22:
        cfg['kind'] = 'tseitin'
        natoms = rng.randint(1, 6)
        cfg['natoms'] = natoms
        cfg['atom_names'] = rng.pick([list('abcdef'), list('abcdef'), ['p', 'q', 'x1', 'x2', 'y', 'x3'], ['A', 'B', 'C', 'D', 'E', 'F']])
        ops = [{'op': 'formula', 'f': gen_formula(rng, natoms, rng.randint(0, 4))}]
        return cfg, ops
    cfg['kind'] = 'cnf'
    style = rng.pick(['mixed', 'mixed', 'threshold', 'small'])
    if style == 'small':
        nvars = rng.randint(1, 4)
        ncl = rng.randint(0, 8)
    elif style == 'threshold':
        nvars = rng.randint(3, 12)
        ncl = max(1, int(nvars * rng.uniform(3.3, 5.2)))
        ncl = min(ncl, 60)
    else:
        nvars = rng.randint(1, 12)
        ncl = rng.randint(0, min(60, 6 * nvars))
    cfg['nvars'] = nvars
    cfg['style'] = style
    if nvars <= 6 and rng.chance(0.7):
        perm = list(range(nvars))
        rng.shuffle(perm)
        cfg['target_order'] = perm
    ops = [{'op': 'clause', 'lits': c} for c in gen_cnf(rng, nvars, ncl, style)]
    return cfg, ops


def shrink_op(op):
    out = []
    if op['op'] == 'clause':
        for i in range(len(op['lits'])):
            out.append({'op': 'clause', 'lits': op['lits'][:i] + op['lits'][i + 1:]})
    elif op['op'] == 'formula':
        f = op['f']
        if f[0] != 'atom':
            for sub in f[1:]:
                out.append({'op': 'formula', 'f': sub})
    return out


# ---------------------------------------------------------------- oracles

def brute_force(cnf, names):
    """returns True iff satisfiable; cnf over names (list of (name, bool))"""
    idx = {n: i for i, n in enumerate(names)}
    masks = []
    for clause in cnf:
        pos = neg = 0
        for n, b in clause:
            if b:
                pos |= 1 << idx[n]
            else:
                neg |= 1 << idx[n]
        masks.append((pos, neg))
    full = (1 << len(names)) - 1
    for a in range(1 << len(names)):
        na = ~a & full
        ok = True
        for pos, neg in masks:
            if not ((a & pos) or (na & neg)):
                ok = False
                break
        if ok:
            return True
    return False


def satisfies(cnf, assignment):
    for clause in cnf:
        if not any(n in assignment and assignment[n] == b for n, b in clause):
            return False
    return True


def replay_trace(cnf, proofs):
    """Independent check of the resolution trace.  Returns (ok, why)."""
    n0 = len(cnf)
    clauses = [frozenset((n, bool(b)) for n, b in c) for c in cnf]
    if not isinstance(proofs, dict) or not proofs:
        return False, 'no trace'
    ids = sorted(proofs)
    if ids != list(range(n0, n0 + len(ids))):
        return False, 'learned clause ids %s are not consecutive from %d' % (ids[:6], n0)

    def resolve_all(cur, rest):
        """all clauses derivable by resolving cur with rest[0], rest[1], ... in order (pivot unknown)"""
        if not rest:
            return [cur]
        cid = rest[0]
        if not (0 <= cid < len(clauses)):
            return []
        other = clauses[cid]
        res = []
        for (x, b) in cur:
            if (x, not b) in other and (x, not b) not in cur and (x, b) not in other:
                new = frozenset(l for l in cur if l[0] != x) | frozenset(l for l in other if l[0] != x)
                res.extend(resolve_all(new, rest[1:]))
        return res

    for i in ids:
        pf = proofs[i]
        if not pf or not all(isinstance(c, int) for c in pf):
            return False, 'malformed proof entry for clause %d: %r' % (i, pf)
        if any(not (0 <= c < len(clauses)) for c in pf):
            return False, 'proof of clause %d names clause ids %s that do not exist yet' % (i, pf)
        outs = resolve_all(clauses[pf[0]], pf[1:])
        if not outs:
            return False, 'clause %d: %s is not a chain of resolution steps' % (i, pf)
        # several pivots possible only in degenerate cases; keep the smallest resolvent deterministically
        clauses.append(sorted(outs, key=lambda c: (len(c), sorted(c)))[0])
    if len(clauses[-1]) != 0:
        return False, 'last learned clause is %s, not the empty clause' % (sorted(clauses[-1]),)
    return True, ''


class Budget(Exception):
    pass


class Violation(Exception):
    def __init__(self, oracle, detail, sig=None):
        Exception.__init__(self, oracle)
        self.oracle, self.detail, self.sig = oracle, detail, sig or oracle


def find_names(nvars, target, rng, ctr):
    """names n_0..n_{k-1} such that iterating a set built from them (in index order) yields target order"""
    from itertools import count
    base = ['v', 'x', 'p', 'q', 'k', 'lit', 'a', 'zz']
    if target is None:
        return ['%s%d' % (rng.pick(base), i) for i in range(nvars)], 0
    for tries in count(1):
        names = ['%s%d_%d' % (rng.pick(base), i, rng.randrange(1000)) for i in range(nvars)]
        s = set()
        for n in names:
            s.add(n)
        if [names.index(x) for x in s] == target:
            return names, tries
        if tries > 20000:
            ctr.inc('target_order_not_realised')
            return names, tries


def solve_monitored(sat, cnf, budget_events, trace, ctr, log):
    """runs sat.solve_cnf under the debug seam (event budget) and optionally a settrace line budget.
    returns (result, events, decisions, conflicts)"""
    events = [0]
    seq = []

    def hook(*a, **k):
        events[0] += 1
        if events[0] > budget_events:
            raise Budget()
        s = a[0] if a else ''
        if isinstance(s, str):
            if s.startswith('Analyze'):
                seq.append('C')
            elif s.startswith('Unit'):
                seq.append('u')

    lines = [0]
    code_file = sat.__file__
    dec_line = _decision_line(sat)
    line_budget = budget_events * 400

    def tracer(frame, event, arg):
        if frame.f_code.co_filename != code_file:
            return None
        return local

    def local(frame, event, arg):
        if event == 'line':
            lines[0] += 1
            if lines[0] > line_budget:
                raise Budget()
            if frame.f_lineno == dec_line:
                seq.append('D:%s' % frame.f_locals.get('var'))
        return local

    old_print = sat.__dict__.get('print')
    sat.print = hook
    if trace:
        sys.settrace(tracer)
    try:
        res = sat.solve_cnf(cnf, debug=True)
    finally:
        if trace:
            sys.settrace(None)
        if old_print is None:
            del sat.print
        else:
            sat.print = old_print
    return res, events[0], lines[0], seq


_dl = {}


def _decision_line(sat):
    if 'l' not in _dl:
        import inspect
        try:
            src, start = inspect.getsourcelines(sat.solve_cnf)
            _dl['l'] = -1
            for i, l in enumerate(src):
                if 'assigns[var] = (True, True, level, None)' in l:
                    _dl['l'] = start + i
        except Exception:
            _dl['l'] = -1
    return _dl['l']


def event_budget(ncl, nv):
    """about 200x the largest event count seen on the unchanged tree for that many variables
    (237 events at 12 variables over 15 560 sampled CNFs)"""
    return 5000 + 4000 * nv


def check_cnf(sat, cnf, names, trace, ctr, log, label):
    nv = len(names)
    budget = event_budget(len(cnf), nv)
    try:
        res, events, lines, seq = solve_monitored(sat, cnf, budget, trace, ctr, log)
    except Budget:
        dup = any(len(set(map(tuple, c))) != len(c) for c in cnf)
        raise Violation('non-termination',
                        '%s: solve_cnf exceeded the budget of %d solver events (repeated literal in some clause: %s); cnf=%s' % (
                            label, budget, dup, cnf),
                        'non-termination:' + ('repeated-literal' if dup else 'other'))
    except RecursionError as e:
        raise Violation('solver-raised', '%s: %r on %s' % (label, e, cnf), 'solver-raised:RecursionError')
    except Exception as e:
        raise Violation('solver-raised', '%s: solve_cnf raised %r on %s' % (label, e, cnf),
                        'solver-raised:' + type(e).__name__)
    ctr['max_events'] = max(ctr.get('max_events', 0), events)
    if trace:
        ctr.inc('traced_runs')
        ctr['max_traced_lines'] = max(ctr.get('max_traced_lines', 0), lines)
    want = brute_force(cnf, names)
    verdict = res[0] if isinstance(res, tuple) and res else res
    if verdict not in ('satisfiable', 'unsatisfiable'):
        raise Violation('bad-result', '%s: solve_cnf returned %r' % (label, res), 'bad-result')
    if (verdict == 'satisfiable') != want:
        raise Violation('verdict-vs-brute-force', '%s: solver says %s, exhaustive search says %s; cnf=%s' % (
            label, verdict, 'satisfiable' if want else 'unsatisfiable', cnf),
            'verdict-vs-brute-force:' + verdict)
    if verdict == 'satisfiable':
        asg = res[1]
        if not isinstance(asg, dict) or not satisfies(cnf, asg):
            raise Violation('assignment-does-not-satisfy', '%s: returned assignment %s does not satisfy %s' % (label, asg, cnf),
                            'assignment-does-not-satisfy')
        ctr.inc('verdict_sat')
    else:
        ok, why = replay_trace(cnf, res[1])
        if not ok:
            raise Violation('invalid-resolution-trace', '%s: %s; trace=%s cnf=%s' % (label, why, res[1], cnf),
                            'invalid-resolution-trace')
        ctr.inc('verdict_unsat')
        ctr.inc('trace_steps_replayed', sum(len(v) for v in res[1].values()))
    nconf = sum(1 for s in seq if s == 'C')
    ctr.inc('conflicts', nconf)
    return verdict, seq, nconf


def build_formula(f, atoms):
    from kernel.term import Not, And, Or, Implies, Eq
    if f[0] == 'atom':
        return atoms[f[1] % len(atoms)]
    if f[0] == 'not':
        return Not(build_formula(f[1], atoms))
    a, b = build_formula(f[1], atoms), build_formula(f[2], atoms)
    return {'and': And, 'or': Or, 'imp': Implies, 'eq': Eq}[f[0]](a, b)


def eval_formula(f, val, n):
    if f[0] == 'atom':
        return val[f[1] % n]
    if f[0] == 'not':
        return not eval_formula(f[1], val, n)
    a, b = eval_formula(f[1], val, n), eval_formula(f[2], val, n)
    return {'and': a and b, 'or': a or b, 'imp': (not a) or b, 'eq': a == b}[f[0]]


def execute(cfg, ops, env):
    from prover import sat
    log = EventLog()
    ctr = Counters()
    res = {'violation': None, 'known_hits': {}, 'nops': 0, 'state_keys': []}
    try:
        nconf = 0
        seq = []
        if cfg['kind'] == 'sweep':
            nconf = run_sweep(sat, cfg, ctr, log)
            ctr.inc('ops', 1)
        elif cfg['kind'] == 'cnf':
            nvars = cfg['nvars']
            rng = SimRng('c15-names', cfg['name_seed'])
            names, tries = find_names(nvars, cfg.get('target_order'), rng, ctr)
            if cfg.get('target_order') is not None:
                ctr.inc('runs_with_chosen_decision_order')
            cnf = [[(names[v % nvars], bool(b)) for v, b in op['lits']] for op in ops if op['op'] == 'clause']
            used = sorted(set(n for c in cnf for n, _ in c), key=names.index)
            ctr.inc('ops', len(cnf) + 1)
            if any(len(set(c)) != len(c) for c in cnf):
                ctr.inc('fault_repeated_literal_inputs')
            if any(any((n, not b) in c for n, b in c) for c in cnf):
                ctr.inc('fault_tautological_clause_inputs')
            if any(len(c) == 0 for c in cnf):
                ctr.inc('fault_empty_clause_inputs')
            order = [names.index(x) for x in set(n for c in cnf for n, _ in c)] if cnf else []
            if order != sorted(order):
                ctr.inc('probe_decision_order_differs_from_sorted')
            verdict, seq, nconf = check_cnf(sat, cnf, used, cfg.get('trace'), ctr, log, 'cnf')
            log.add('cnf', [[(names.index(n), b) for n, b in c] for c in cnf], verdict, [s if s in 'Cu' else 'D' for s in seq])
        else:
            from kernel.type import BoolType
            from kernel.term import Var
            from kernel import theory
            from prover import tseitin
            from logic import basic
            basic.load_theory('sat')
            natoms = cfg['natoms']
            atoms = [Var(n, BoolType) for n in cfg['atom_names'][:natoms]]
            f = [op for op in ops if op['op'] == 'formula'][0]['f']
            t = build_formula(f, atoms)
            ctr.inc('ops', 3)
            ctr.inc('tseitin_formulas')
            try:
                pt = tseitin.encode(t)
            except Exception as e:
                raise Violation('tseitin.encode-raised', 'encode(%s) raised %r' % (t, e), 'tseitin.encode-raised:' + type(e).__name__)
            try:
                th = theory.check_proof(pt.export(), no_gaps=True)
            except Exception as e:
                raise Violation('tseitin.rejected-by-checker', 'encoding of %s rejected: %r' % (t, e),
                                'tseitin.rejected-by-checker:' + type(e).__name__)
            if th.prop != pt.prop:
                raise Violation('tseitin.checker-proves-other', 'checker proves %s, encode claims %s' % (th.prop, pt.prop),
                                'tseitin.checker-proves-other')
            for h in th.hyps:
                if h != t and not (h.is_equals() and h.lhs.is_var() and h.lhs.name.startswith('x')):
                    raise Violation('tseitin.unexpected-hypothesis', 'hypothesis %s is neither the formula nor a definition' % (h,),
                                    'tseitin.unexpected-hypothesis')
            try:
                cnf = tseitin.convert_cnf(th.prop)
            except Exception as e:
                raise Violation('tseitin.not-a-cnf', 'conclusion %s is not a CNF: %r' % (th.prop, e), 'tseitin.not-a-cnf')
            fsat = any(eval_formula(f, val, natoms) for val in itertools.product([False, True], repeat=natoms))
            names = sorted(set(n for c in cnf for n, _ in c))
            if len(names) <= 16:
                csat = brute_force(cnf, names)
                if csat != fsat:
                    raise Violation('tseitin.not-equisatisfiable',
                                    'formula %s is %ssatisfiable but its CNF %s is %ssatisfiable' % (
                                        t, '' if fsat else 'un', cnf, '' if csat else 'un'),
                                    'tseitin.not-equisatisfiable')
                # stronger: every model of the CNF restricted through the definitions satisfies the formula
                verdict, seq, nconf = check_cnf(sat, cnf, names, cfg.get('trace'), ctr, log, 'tseitin-cnf')
            else:
                ctr.inc('tseitin_cnf_too_large_for_brute_force')
                verdict = None
            log.add('tseitin', str(f), len(cnf), verdict)
    except Violation as v:
        res['violation'] = {'oracle': v.oracle, 'detail': str(v.detail)[:1500], 'sig': v.sig, 'event_seq': log.n}
    res['nops'] = ctr.get('ops', 0)
    res['digest'] = log.digest()
    res['counters'] = ctr
    res['events'] = log.events[:3]
    if nconf > 0:
        res['state_keys'] = [log.digest()[:16]]
    return res


# ---------------------------------------------------------------- systematic sweep (thorough tier)

SWEEP_SHARDS = 64


def extra(tier):
    """additional fixed runs: the systematic sweep, sharded"""
    if tier != 'thorough':
        return []
    return [({'kind': 'sweep', 'shard': i, 'of': SWEEP_SHARDS, 'name_seed': 77, 'trace': False}, [{'op': 'sweep'}])
            for i in range(SWEEP_SHARDS)]


def run_sweep(sat, cfg, ctr, log):
    """all clause multisets over <=3 variables and <=4 clauses (clauses = literal sets of size 0..3, incl.
    the empty and tautological ones), each under all 6 decision orders: a complement to the seeded
    search, not a replacement for it"""
    lits = [(v, b) for v in range(3) for b in (True, False)]
    clause_space = []
    for r in range(0, 4):
        for c in itertools.combinations(lits, r):
            clause_space.append(list(c))
    namings = []
    for perm in itertools.permutations(range(3)):
        names, tries = find_names(3, list(perm), SimRng('c15-sweep', perm), ctr)
        namings.append(names)
    total = 0
    idx = 0
    nconf = 0
    for k in range(0, 5):
        for combo in itertools.combinations_with_replacement(range(len(clause_space)), k):
            idx += 1
            if idx % cfg['of'] != cfg['shard']:
                continue
            for names in namings:
                cnf = [[(names[v], b) for v, b in clause_space[i]] for i in combo]
                used = sorted(set(n for c in cnf for n, _ in c))
                _, _, nc = check_cnf(sat, cnf, used, False, ctr, log, 'sweep')
                nconf += nc
                total += 1
    ctr.inc('sweep_solves', total)
    log.add('sweep', cfg['shard'], total, nconf)
    return nconf


# ---------------------------------------------------------------- sensitivity variants

def _p(name_old_new):
    from prover import sat
    from holsim.seams import patch_source
    for old, new in name_old_new:
        patch_source(sat, 'solve_cnf', old, new)


def _v_res_pivot():
    from prover import sat
    from holsim.seams import patch_source
    patch_source(sat, 'resolution', "lit2 = [lit for lit in clause2 if lit[0] != name]", "lit2 = list(clause2)")


def _v_backjump():
    _p([("backtrack_level = assigns[name][2]", "backtrack_level = assigns[name][2] + 1")])


def _v_unit_pol():
    _p([("assigns[name] = (val, False, level, clause_id)",
         "assigns[name] = (val if len(clause) != 4 else (not val), False, level, clause_id)")])


def _v_sat_unassigned():
    _p([("if len(unassigned) == 0:\n                        return 'conflict', clause_id",
         "if len(unassigned) == 0 and len(clause) != 3:\n                        return 'conflict', clause_id\n"
         "                    elif len(unassigned) == 0:\n                        pass")])


def _v_tseitin_drop():
    from prover import tseitin
    from holsim.seams import patch_source
    patch_source(tseitin, 'convert_cnf', "return [convert_clause(clause) for clause in t.strip_conj()]",
                 "return [convert_clause(clause) for clause in t.strip_conj()][:-1] if len(t.strip_conj()) > 5 else "
                 "[convert_clause(clause) for clause in t.strip_conj()]")


def _v_dup_hang():
    """re-creates the non-termination on repeated literals (repaired by a fix: commit if one is made)"""
    _p([("cnf = [[lit for i, lit in enumerate(clause) if lit not in clause[:i]] for clause in cnf]",
         "cnf = [list(clause) for clause in cnf]")])


def _v_decide_false():
    _p([("assigns[var] = (True, True, level, None)", "assigns[var] = (False, True, level, None)")])


def _v_proof_omit():
    _p([("proofs[new_id] = proof", "proofs[new_id] = proof[1:] if len(proof) > 3 else proof")])


def _v_analyze_early():
    _p([("if not is_decide:", "if not is_decide and len(proof) < 4:")])


VARIANTS = {
    'resolution_keeps_pivot': _v_res_pivot,
    'backjump_one_too_high': _v_backjump,
    'unit_wrong_polarity': _v_unit_pol,
    'sat_reports_unassigned_conflict': _v_sat_unassigned,
    'tseitin_drops_clause': _v_tseitin_drop,
    'dup_literal_hang': _v_dup_hang,
    'decide_false_first': _v_decide_false,
    'proof_omits_first': _v_proof_omit,
    'analyze_stops_early': _v_analyze_early,
}
