"""Web layer of the C13 / C14 simulator: the real request handlers of app/ide.py behind a stub
transport (seam S6).  The real app/app.py cannot be imported with the installed Flask 3.1
(flask.json.JSONEncoder is gone), so `app` / `app.app` are stub modules whose `app.route()` is the
identity decorator; `ide.request` / `ide.jsonify` are in-process fakes.  The handler bodies run
unmodified.  The harness sends only what a browser sends (JSON payloads) and judges the states
the server hands back."""
import json
import os
import sys
import types

REPO = os.environ.get('HOLPY_REPO', '/repo')

_state = {}


class _FakeApp:
    def route(self, *a, **k):
        def deco(f):
            return f
        return deco


class _FakeRequest:
    def __init__(self):
        self.payload = b'{}'

    def get_data(self):
        return self.payload


def load_ide():
    """import app/ide.py behind the stub transport (idempotent)"""
    if 'ide' in _state:
        return _state['ide']
    if 'app' not in sys.modules or not getattr(sys.modules['app'], '_holsim_stub', False):
        pkg = types.ModuleType('app')
        pkg.__path__ = [os.path.join(REPO, 'app')]
        pkg._holsim_stub = True
        sys.modules['app'] = pkg
        sub = types.ModuleType('app.app')
        sub.app = _FakeApp()
        sys.modules['app.app'] = sub
        pkg.app = sub
    import importlib
    ide = importlib.import_module('app.ide')
    req = _FakeRequest()
    ide.request = req
    ide.jsonify = lambda x=None, **k: json.loads(json.dumps(x if x is not None else k, default=_default))
    ide.print = lambda *a, **k: None      # "Load: %f" timing prints read perf_counter; never logged
    _state['ide'] = ide
    _state['req'] = req
    return ide


def _default(o):
    if hasattr(o, 'keys') and hasattr(o, '__getitem__'):
        return dict(o)
    return str(o)


def call(handler, payload):
    """one HTTP request: JSON in, JSON out"""
    ide = load_ide()
    _state['req'].payload = json.dumps(payload).encode('utf-8')
    return getattr(ide, handler)()


def proof_cache():
    return load_ide().proof_cache
