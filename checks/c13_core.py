"""Shared machinery for C13 / C14: sessions over recorded library proofs, the statement's
invariants I1-I6, the solver seam S9, digests.  All holpy imports are local so that the
module can be imported before holpy."""
import copy
import hashlib
import json
import os

REPO = os.environ.get('HOLPY_REPO', '/repo')

QUICK_THEORIES = ['logic_base', 'logic', 'nat', 'function', 'set', 'list']
THOROUGH_THEORIES = QUICK_THEORIES + ['expr', 'int', 'rat', 'topology', 'hoare', 'gcl', 'string', 'class', 'sat']


class Violation(Exception):
    def __init__(self, oracle, detail, sig=None):
        Exception.__init__(self, oracle)
        self.oracle, self.detail, self.sig = oracle, detail, sig or oracle


# ---------------------------------------------------------------- seam S9: the solver as a slow / stalled peer

class Z3Proxy:
    """stands in for the `z3` module as seen by prover/z3wrapper.py: every Solver gets a deterministic
    resource limit (never a wall-clock time-out); `unknown` answers are counted, and can be injected"""

    def __init__(self, real, rlimit=2000000):
        self._real = real
        self._rlimit = rlimit
        self.unknown = 0
        self.checks = 0
        self.inject = None      # callable() -> bool : answer unknown without running

    def __getattr__(self, name):
        return getattr(self._real, name)

    def Solver(self, *a, **k):
        s = self._real.Solver(*a, **k)
        try:
            s.set('rlimit', self._rlimit)
        except Exception:
            pass
        proxy = self
        real_check = s.check

        def check(*aa, **kk):
            proxy.checks += 1
            if proxy.inject is not None and proxy.inject():
                proxy.unknown += 1
                return proxy._real.unknown
            r = real_check(*aa, **kk)
            if str(r) == 'unknown':
                proxy.unknown += 1
            return r
        try:
            s.check = check
        except Exception:
            pass
        return s


_z3 = {}


def install_solver_seam():
    from prover import z3wrapper
    if 'proxy' not in _z3:
        real = z3wrapper.z3
        if isinstance(real, Z3Proxy):
            real = real._real
        _z3['proxy'] = Z3Proxy(real)
    z3wrapper.z3 = _z3['proxy']
    return _z3['proxy']


# ---------------------------------------------------------------- corpus

_corpus = {}


def load_corpus(theories):
    """theorems with recorded steps, per theory: [{theory, name, vars, prop, steps, nsteps}]"""
    out = []
    for th in theories:
        if th not in _corpus:
            with open(os.path.join(REPO, 'library', th + '.json'), encoding='utf-8') as f:
                data = json.load(f)
            lst = []
            for it in data['content']:
                if it.get('ty') == 'thm' and it.get('steps'):
                    lst.append({'theory': th, 'name': it['name'], 'vars': it.get('vars', {}), 'prop': it['prop'],
                                'steps': it['steps']})
            _corpus[th] = lst
        out.extend(_corpus[th])
    return out


# ---------------------------------------------------------------- digests (representation independent)

def _walk(prf, out):
    for it in prf.items:
        out.append((str(it.id), it.rule, [str(p) for p in it.prevs], None if it.th is None else _thm_key(it.th),
                    _args_key(it.args)))
        if it.subproof:
            _walk(it.subproof, out)


def _term_key(t):
    """alpha-invariant structural key"""
    from checks.c03 import read_term
    from checks.c03_model import strip
    return hashlib.sha1(repr(strip(read_term(t))).encode()).hexdigest()[:12]


def _thm_key(th):
    return (sorted(_term_key(h) for h in th.hyps), _term_key(th.prop))


def _type_key(T):
    from checks.c03 import read_type
    return repr(read_type(T))


def _args_key(a):
    """structural key of rule arguments; never goes through holpy's printer (which depends on the
    current theory and settings)"""
    from kernel.term import Term, Inst
    from kernel.type import Type, TyInst
    if a is None:
        return None
    if isinstance(a, Term):
        return ('t', _term_key(a))
    if isinstance(a, Type):
        return ('T', _type_key(a))
    if isinstance(a, Inst):
        return ('inst', sorted((str(k), _args_key(v)) for k, v in a.items()),
                sorted((str(k), _type_key(v)) for k, v in a.tyinst.items()),
                sorted((str(k), _args_key(v)) for k, v in a.var_inst.items()),
                sorted((str(k), str(v)) for k, v in a.abs_name_inst.items()))
    if isinstance(a, TyInst):
        return ('tyinst', sorted((str(k), _type_key(v)) for k, v in a.items()))
    if isinstance(a, (tuple, list)):
        return [_args_key(x) for x in a]
    if isinstance(a, dict):
        return sorted((str(k), _args_key(v)) for k, v in a.items())
    if isinstance(a, (str, int, bool)):
        return a
    return type(a).__name__


def state_digest(state):
    out = []
    _walk(state.prf, out)
    vs = sorted((v.name, _type_key(v.T)) for v in state.vars)
    return hashlib.sha256(repr((vs, out)).encode()).hexdigest()[:20]


def sorry_items(prf, acc=None):
    acc = [] if acc is None else acc
    for it in prf.items:
        if it.rule == 'sorry':
            acc.append(it)
        if it.subproof:
            sorry_items(it.subproof, acc)
    return acc


def all_items(prf, acc=None):
    acc = [] if acc is None else acc
    for it in prf.items:
        acc.append(it)
        if it.subproof:
            all_items(it.subproof, acc)
    return acc


# ---------------------------------------------------------------- the statement's invariants

def failing_rule(state, no_gaps=False):
    """run the checker item by item on a copy to name the top-level line whose check raises"""
    from kernel import theory, report
    st = copy.copy(state)
    rpt = report.ProofReport()
    for it in st.prf.items:
        try:
            theory.thy._check_proof_item(st.prf, it, rpt, no_gaps, False, 0)
        except Exception as e:
            rule = it.rule
            if rule == 'subproof':
                rule = _deep_fail(st.prf, it, rpt, no_gaps) or 'subproof'
            return rule, e
    return None, None


def _deep_fail(prf, item, rpt, no_gaps):
    from kernel import theory
    for s in item.subproof.items:
        try:
            theory.thy._check_proof_item(prf, s, rpt, no_gaps, False, 0)
        except Exception:
            if s.rule == 'subproof':
                return _deep_fail(prf, s, rpt, no_gaps) or 'subproof'
            return s.rule
    return None


def _exc_kind(e):
    s = str(e)
    for k in ('output does not match', 'cannot depend on', 'previous item not found', 'theorem not found',
              'invalid derivation', 'typing error', 'gaps are not allowed', 'proof method not found',
              'previous theorem', 'invalid input to derivation', 'not found'):
        if k in s:
            return k.replace(' ', '-')
    return ''


def check_invariants(state, goal, ctxinfo, proxy, last_method, which=('I1', 'I2', 'I3', 'I4', 'I5')):
    """Evaluates the statement's invariants on `state` (never mutates it) in the order I2, I3, I1, I4, I5 and
    stops at the first one that fails (the later ones would only restate the same damage).
    Returns [] or [(sig, oracle, detail)].  sig None = inconclusive (the solver answered `unknown`).

    Signatures: I2/<method>; I3/numbering/<method>; I3/citation/<method>; I1/<method>; I4/<method>;
    I5/... (see check_export_import).  <method> is the editing method after which the state first fails."""
    from kernel.proof import ItemID
    lm = last_method or '-'

    def fam(oracle, sig):
        # the editing method after which a state first fails is the call site that identifies the defect;
        # the failing rule / exception vary with the proof at hand and go into the detail text only
        if oracle in ('I1', 'I4'):
            return '%s/%s' % (oracle, lm)
        return sig
    # I2 last line is the original sequent
    if 'I2' in which:
        last = state.prf.items[-1]
        if last.th is None or last.th != goal:
            return [('I2/%s' % lm, 'I2', 'last line is %s, the goal is %s' % (last.th, goal))]
    # I3 numbering and citations (own definition of "earlier visible line", not ItemID.can_depend_on)
    if 'I3' in which:
        index = {}

        def collect(prf, prefix):
            for i, it in enumerate(prf.items):
                index[tuple(prefix) + (i,)] = it
                if it.subproof:
                    collect(it.subproof, tuple(prefix) + (i,))
        collect(state.prf, ())

        def visible(a, p):
            n = len(p)
            return 0 < n <= len(a) and p[:n - 1] == a[:n - 1] and p[n - 1] < a[n - 1]
        bad = []

        def walk(prf, prefix):
            for i, it in enumerate(prf.items):
                want = tuple(prefix) + (i,)
                if tuple(it.id.id) != want:
                    bad.append((fam('I3', 'I3/numbering/%s' % lm), 'I3', 'line %s sits at position %s' % (it.id, want)))
                    return False
                for p in it.prevs:
                    pid = tuple(ItemID(p).id)
                    if pid not in index or not visible(want, pid):
                        bad.append((fam('I3', 'I3/citation/%s' % lm), 'I3',
                                    'line %s (%s) cites %s: exists=%s, earlier-and-visible=%s' % (
                                        it.id, it.rule, ItemID(p), pid in index, visible(want, pid))))
                        return False
                if it.subproof and not walk(it.subproof, want):
                    return False
            return True
        walk(state.prf, ())
        if bad:
            return bad[:1]
    # I1 full re-check of a copy
    nsorry = len(sorry_items(state.prf))
    if 'I1' in which:
        st = copy.copy(state)
        u0 = proxy.unknown if proxy else 0
        try:
            th = st.check_proof()
            gaps = list(st.rpt.gaps)
            if th != goal:
                return [(fam('I1', 'I1/result/%s' % lm), 'I1', 're-check proves %s, goal is %s' % (th, goal))]
            want = sorted(repr(_thm_key(it.th)) for it in sorry_items(state.prf))
            got = sorted(repr(_thm_key(g)) for g in gaps)
            if want != got:
                return [(fam('I1', 'I1/gaps/%s' % lm), 'I1',
                         're-check reports %d gaps, the proof has %d sorry lines' % (len(got), len(want)))]
        except Exception as e:
            if proxy and proxy.unknown > u0:
                return [(None, 'I1', 'inconclusive: solver answered unknown')]
            rule, _ = failing_rule(state)
            return [(fam('I1', 'I1/%s/%s/%s/%s' % (rule, type(e).__name__, _exc_kind(e), lm)), 'I1',
                     'full re-check raises %s: %s (at rule %s, after %s)' % (type(e).__name__, str(e)[:300], rule, lm))]
    # I4 no gap left => accepted with gaps disallowed
    if 'I4' in which and nsorry == 0:
        st = copy.copy(state)
        u0 = proxy.unknown if proxy else 0
        try:
            th = st.check_proof(no_gaps=True)
            if th != goal:
                return [(fam('I4', 'I4/result/%s' % lm), 'I4', 'gap-free check proves %s, goal %s' % (th, goal))]
        except Exception as e:
            if proxy and proxy.unknown > u0:
                return [(None, 'I4', 'inconclusive: solver answered unknown')]
            rule, _ = failing_rule(state, no_gaps=True)
            return [(fam('I4', 'I4/%s/%s/%s/%s' % (rule, type(e).__name__, _exc_kind(e), lm)), 'I4',
                     'no gap left but check_proof(no_gaps=True) raises %s: %s' % (type(e).__name__, str(e)[:300]))]
    # I5 export -> re-import
    if 'I5' in which:
        return check_export_import(state, goal, ctxinfo, proxy, lm)[:1]
    return []


def export_lines(state):
    from syntax.settings import global_setting
    with global_setting(unicode=True, highlight=False):
        return state.export_proof()


def check_export_import(state, goal, ctxinfo, proxy, lm):
    from server import server
    from logic import context
    out = []
    try:
        lines = export_lines(state)
    except Exception as e:
        rule = _export_fail_rule(state)
        return [('I5/export/%s/%s' % (rule, type(e).__name__), 'I5', 'export raises %s: %s' % (type(e).__name__, str(e)[:200]))]
    # what crosses the boundary is text only
    lines = json.loads(json.dumps(lines))
    u0 = proxy.unknown if proxy else 0
    saved = context.ctxt
    try:
        context.set_context(None, vars=dict(ctxinfo['vars']))
        try:
            st2 = server.parse_proof(lines)
        finally:
            pass
        lines2 = export_lines(st2)
        if _strip_lines(lines) != _strip_lines(lines2):
            for a, b in zip(_strip_lines(lines), _strip_lines(lines2)):
                if a != b:
                    out.append(('I5/lines-differ/%s' % (a.get('rule'),), 'I5', 're-imported line differs: %s vs %s' % (a, b)))
                    break
            else:
                out.append(('I5/lines-differ/count', 'I5', 're-import has %d lines, export had %d' % (len(lines2), len(lines))))
        if st2.prf.items[-1].th != state.prf.items[-1].th:
            out.append(('I5/result', 'I5', 're-imported proof ends in %s' % (st2.prf.items[-1].th,)))
        g1 = sorted(repr(_thm_key(g)) for g in st2.rpt.gaps)
        g0 = sorted(repr(_thm_key(it.th)) for it in sorry_items(state.prf))
        if g1 != g0:
            out.append(('I5/gaps', 'I5', 're-imported proof has %d gaps, original %d' % (len(g1), len(g0))))
    except Exception as e:
        if proxy and proxy.unknown > u0:
            out.append((None, 'I5', 'inconclusive: solver answered unknown'))
        else:
            rule = _import_fail_rule(lines, ctxinfo)
            if rule.startswith('parse:') and type(e).__name__ == 'TypeInferenceException':
                rule = 'parse'      # any line can carry the term that does not re-parse
            out.append(('I5/import/%s/%s/%s' % (rule, type(e).__name__, _exc_kind(e)), 'I5',
                        're-import raises %s: %s (rule %s)' % (type(e).__name__, str(e)[:300], rule)))
    finally:
        context.ctxt = saved
    return out


def _strip_lines(lines):
    return [{k: l.get(k) for k in ('id', 'rule', 'args', 'prevs', 'th')} for l in lines]


def _export_fail_rule(state):
    from syntax import printer
    for it in all_items(state.prf):
        try:
            printer.export_proof_item(it)
        except Exception:
            return it.rule
    return '?'


def _import_fail_rule(lines, ctxinfo):
    """which rule's line fails to parse (or, if all parse, where the check of the re-import fails)"""
    from syntax import parser
    from logic import context
    from server import server
    from kernel.proof import Proof
    try:
        context.set_context(None, vars=dict(ctxinfo['vars']))
        for line in lines:
            try:
                if line['rule'] == 'variable':
                    nm, str_T = line['args'].split(',', 1)
                    context.ctxt.vars[nm] = parser.parse_type(str_T.strip())
                parser.parse_proof_rule(line)
            except Exception:
                return 'parse:' + line['rule']
        context.set_context(None, vars=dict(ctxinfo['vars']))
        from server.method import ProofState
        st = ProofState()
        st.prf = Proof()
        for line in lines:
            if line['rule'] == 'variable':
                nm, str_T = line['args'].split(',', 1)
                context.ctxt.vars[nm] = parser.parse_type(str_T.strip())
            st.prf.insert_item(parser.parse_proof_rule(line))
        rule, _ = failing_rule(st)
        return 'check:%s' % rule
    except Exception:
        return '?'


def class_key(sig):
    """what a state `carries`: the invariant that fails (for I5 the whole signature, which names the rule)"""
    parts = sig.split('/')
    if parts[0] == 'I5':
        return sig
    return parts[0]
